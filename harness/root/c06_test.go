package PKGNAME

// C06 — Presence reflects live subscriptions.
// (a) TestVF_C06_Manager: generated call sequences over MemoryPresenceManager against a map model.
// (b) TestVF_C06_World: real Node/Clients on a virtual clock; the periodic presence tick of one connection is parked
//     inside AddPresence (and optionally inside the compensating RemovePresence) while subscribe / unsubscribe /
//     close run; at every quiescent point channel presence must equal the set of settled live subscriptions.

import (
	"fmt"
	"runtime"
	"sort"
	"strings"
	"testing"
	"time"

	"github.com/centrifugal/centrifuge/internal/saferand"
	"github.com/centrifugal/protocol"
	"pgregory.net/rapid"
)

// ---------------------------------------------------------------------------------------------------------------
// (a) manager level

type vfC06MOp struct {
	Kind   int // 0 add, 1 remove, 2 presence, 3 stats
	Ch     int
	Client int
	User   int
	Info   int // variant of conn/chan info (re-add with changed info)
}

func (o vfC06MOp) String() string {
	switch o.Kind {
	case 0:
		return fmt.Sprintf("add(ch%d c%d u%d i%d)", o.Ch, o.Client, o.User, o.Info)
	case 1:
		return fmt.Sprintf("remove(ch%d c%d u%d)", o.Ch, o.Client, o.User)
	case 2:
		return fmt.Sprintf("presence(ch%d)", o.Ch)
	}
	return fmt.Sprintf("stats(ch%d)", o.Ch)
}

type vfC06MInfo struct {
	User, Conn, Chan string
}

var vfC06MNode *Node

func TestVF_C06_Manager(t *testing.T) {
	vfCheck(t, "C06", func(rt *rapid.T, c *vfCase) string {
		nCh := rapid.IntRange(1, 3).Draw(rt, "nch")
		nCl := rapid.IntRange(1, 5).Draw(rt, "ncl")
		nU := rapid.IntRange(1, 3).Draw(rt, "nu")
		n := rapid.IntRange(1, 40).Draw(rt, "nops")
		ops := make([]vfC06MOp, n)
		descr := make([]string, n)
		for i := range ops {
			ops[i] = vfC06MOp{
				Kind:   rapid.SampledFrom([]int{0, 0, 0, 1, 1, 2, 3}).Draw(rt, "kind"),
				Ch:     rapid.IntRange(0, nCh-1).Draw(rt, "ch"),
				Client: rapid.IntRange(0, nCl-1).Draw(rt, "client"),
				User:   rapid.IntRange(0, nU-1).Draw(rt, "user"),
				Info:   rapid.IntRange(0, 2).Draw(rt, "info"),
			}
			descr[i] = ops[i].String()
		}
		c.Describe("manager ops=[" + strings.Join(descr, " ") + "]")
		if vfC06MNode == nil {
			nd, err := New(Config{})
			if err != nil {
				return "infra: " + err.Error()
			}
			vfC06MNode = nd
		}
		pm, err := NewMemoryPresenceManager(vfC06MNode, MemoryPresenceManagerConfig{})
		if err != nil {
			return "infra: " + err.Error()
		}
		model := map[string]map[string]vfC06MInfo{}
		chName := func(i int) string { return fmt.Sprintf("ch%d", i) }
		sharedUser, changedInfo, removeAbsent := false, false, false
		compare := func(step int) string {
			for i := 0; i < nCh; i++ {
				ch := chName(i)
				got, err := pm.Presence(ch)
				if err != nil {
					return fmt.Sprintf("step %d: Presence(%s) error %v", step, ch, err)
				}
				want := model[ch]
				if len(got) != len(want) {
					return fmt.Sprintf("step %d: Presence(%s) has %d entries, model has %d", step, ch, len(got), len(want))
				}
				users := map[string]bool{}
				for id, w := range want {
					g, ok := got[id]
					if !ok || g == nil {
						return fmt.Sprintf("step %d: Presence(%s) lacks client %s", step, ch, id)
					}
					if g.ClientID != id || g.UserID != w.User || string(g.ConnInfo) != w.Conn || string(g.ChanInfo) != w.Chan {
						return fmt.Sprintf("step %d: Presence(%s)[%s] = {%s %s %s %s}, model {%s %s %s}", step, ch, id, g.ClientID, g.UserID, g.ConnInfo, g.ChanInfo, w.User, w.Conn, w.Chan)
					}
					users[w.User] = true
				}
				st, err := pm.PresenceStats(ch)
				if err != nil {
					return fmt.Sprintf("step %d: PresenceStats(%s) error %v", step, ch, err)
				}
				if st.NumClients != len(want) || st.NumUsers != len(users) {
					return fmt.Sprintf("step %d: PresenceStats(%s) = {clients %d users %d}, presence set has %d distinct clients and %d distinct users", step, ch, st.NumClients, st.NumUsers, len(want), len(users))
				}
				if len(users) < len(want) {
					sharedUser = true
				}
			}
			return ""
		}
		for i, o := range ops {
			ch := chName(o.Ch)
			id := fmt.Sprintf("c%d", o.Client)
			user := fmt.Sprintf("u%d", o.User)
			switch o.Kind {
			case 0:
				inf := vfC06MInfo{User: user, Conn: fmt.Sprintf(`{"v":%d}`, o.Info), Chan: fmt.Sprintf(`{"ch":"%s","v":%d}`, ch, o.Info)}
				if o.Info == 0 {
					inf.Conn, inf.Chan = "", ""
				}
				if prev, ok := model[ch][id]; ok && prev != inf {
					changedInfo = true
				}
				ci := &ClientInfo{ClientID: id, UserID: user}
				if inf.Conn != "" {
					ci.ConnInfo, ci.ChanInfo = []byte(inf.Conn), []byte(inf.Chan)
				}
				if err := pm.AddPresence(ch, id, ci); err != nil {
					return fmt.Sprintf("step %d: AddPresence error %v", i, err)
				}
				if model[ch] == nil {
					model[ch] = map[string]vfC06MInfo{}
				}
				model[ch][id] = inf
			case 1:
				if _, ok := model[ch][id]; !ok {
					removeAbsent = true
				}
				if err := pm.RemovePresence(ch, id, user); err != nil {
					return fmt.Sprintf("step %d: RemovePresence error %v", i, err)
				}
				delete(model[ch], id)
			}
			if m := compare(i); m != "" {
				return m
			}
		}
		c.Label("manager_case")
		if sharedUser {
			c.Label("manager_user_with_several_clients")
		}
		if changedInfo {
			c.Label("manager_readd_changed_info")
		}
		if removeAbsent {
			c.Label("manager_remove_absent")
		}
		if sharedUser || changedInfo {
			c.Nontrivial(c.desc)
		}
		return ""
	})
}

// ---------------------------------------------------------------------------------------------------------------
// (b) world level

var vfC06Chans = []string{"pa", "pb", "pc", "pd", "pe", "pf"}

type vfC06Step struct {
	Kind       int // 0 subscribe, 1 unsubscribe, 2 close, 3 park tick, 4 release, 5 advance, 6 release to the tick's next add
	Conn       int
	Ch         int
	Mode       int  // subscribe: 0 client command, 1 Client.Subscribe; unsubscribe: 0 command, 1 Client.Unsubscribe, 2 Node.Unsubscribe
	PickParked bool // unsubscribe: target a channel whose presence add is parked (when there is one)
	RmGate     bool // release: park the tick's compensating RemovePresence as well
	OnParked   bool // run on the connection whose tick is parked (when there is one), else on Conn
	PickRm     bool // subscribe: target a channel whose compensating remove is parked (when there is one)
	Multi      bool // park tick: keep the add gates of the other channels armed so the SAME tick parks again later
	PickOther  bool // unsubscribe: target a subscribed channel whose add is NOT parked right now
	SubGate    int  // subscribe/unsubscribe race: 0 subscribe parked in the async OnSubscribe callback, 1 in its AddPresence
	UnsubMode  int  // subscribe/unsubscribe race: 0 command, 1 Client.Unsubscribe, 2 Node.Unsubscribe
	Hold       bool // subscribe/unsubscribe race: release only after the unsubscribe's 5 s wait timed out
	Adv        int
}

func (s vfC06Step) String() string {
	switch s.Kind {
	case 0:
		return fmt.Sprintf("sub(c%d %s mode=%d onParked=%v pickRm=%v)", s.Conn, vfC06Chans[s.Ch], s.Mode, s.OnParked, s.PickRm)
	case 1:
		return fmt.Sprintf("unsub(c%d %s mode=%d onParked=%v pickParked=%v pickOther=%v)", s.Conn, vfC06Chans[s.Ch], s.Mode, s.OnParked, s.PickParked, s.PickOther)
	case 2:
		return fmt.Sprintf("close(c%d mode=%d onParked=%v)", s.Conn, s.Mode, s.OnParked)
	case 3:
		return fmt.Sprintf("parkTick(c%d multi=%v)", s.Conn, s.Multi)
	case 4:
		return fmt.Sprintf("release(rmGate=%v)", s.RmGate)
	case 6:
		return "releaseToNextAdd"
	case 7:
		return fmt.Sprintf("unsubWhileSubInFlight(c%d %s subMode=%d gate=%d unsubMode=%d holdPastTimeout=%v)", s.Conn, vfC06Chans[s.Ch], s.Mode, s.SubGate, s.UnsubMode, s.Hold)
	}
	return fmt.Sprintf("adv(%ds)", s.Adv)
}

type vfC06Case struct {
	Conc  int
	Users []int
	Steps []vfC06Step
}

func (c vfC06Case) String() string {
	st := make([]string, len(c.Steps))
	for i, s := range c.Steps {
		st[i] = s.String()
	}
	return fmt.Sprintf("world tickConcurrency=%d users=%v steps=[%s]", c.Conc, c.Users, strings.Join(st, " "))
}

func vfC06Gen(rt *rapid.T) vfC06Case {
	c := vfC06Case{}
	c.Conc = rapid.SampledFrom([]int{0, 3}).Draw(rt, "conc")
	nc := rapid.IntRange(2, 3).Draw(rt, "nconns")
	for i := 0; i < nc; i++ {
		c.Users = append(c.Users, rapid.IntRange(0, 1).Draw(rt, "user"))
	}
	conn := func() int { return rapid.IntRange(0, nc-1).Draw(rt, "conn") }
	chn := func() int { return rapid.IntRange(0, 2).Draw(rt, "ch") } // the general schedule stays on pa/pb/pc
	free := func() vfC06Step {
		k := rapid.SampledFrom([]int{0, 0, 1, 1, 2, 5}).Draw(rt, "kind")
		s := vfC06Step{Kind: k, Conn: conn(), Ch: chn()}
		switch k {
		case 0:
			s.Mode = rapid.IntRange(0, 1).Draw(rt, "mode")
		case 1:
			s.Mode = rapid.IntRange(0, 2).Draw(rt, "mode")
		case 2:
			s.Mode = rapid.IntRange(0, 1).Draw(rt, "mode")
		case 5:
			s.Adv = rapid.SampledFrom([]int{1, 3, 11}).Draw(rt, "adv")
		}
		return s
	}
	race := func() vfC06Step {
		r := vfC06Step{Kind: 7, Conn: conn(), Ch: rapid.IntRange(0, 5).Draw(rt, "rch"), SubGate: rapid.IntRange(0, 1).Draw(rt, "subGate"),
			UnsubMode: rapid.IntRange(0, 2).Draw(rt, "unsubMode"), Hold: rapid.IntRange(0, 5).Draw(rt, "hold") == 0}
		if r.SubGate == 1 {
			// parked inside AddPresence the subscribe blocks the connection's command reader (or is a server-side
			// Client.Subscribe), so the unsubscribe comes from the server API
			r.Mode = rapid.IntRange(0, 1).Draw(rt, "subMode")
			r.UnsubMode = rapid.IntRange(1, 2).Draw(rt, "unsubModeSrv")
		}
		return r
	}
	// a prefix of subscribes so that ticks have something to do
	npre := rapid.IntRange(2, 6).Draw(rt, "npre")
	for i := 0; i < npre; i++ {
		c.Steps = append(c.Steps, vfC06Step{Kind: 0, Conn: conn(), Ch: chn(), Mode: rapid.IntRange(0, 1).Draw(rt, "pmode")})
	}
	rounds := rapid.IntRange(1, 3).Draw(rt, "rounds")
	for r := 0; r < rounds; r++ {
		for n := rapid.IntRange(0, 2).Draw(rt, "noise"); n > 0; n-- {
			c.Steps = append(c.Steps, free())
		}
		variant := rapid.SampledFrom([]int{0, 0, 3, 3, 1, 1, 2, 4, 4}).Draw(rt, "variant")
		if variant == 4 {
			// an unsubscribe arrives while a subscribe with presence is still in flight
			for n := rapid.IntRange(1, 2).Draw(rt, "nrace"); n > 0; n-- {
				c.Steps = append(c.Steps, race())
			}
			continue
		}
		if variant == 3 {
			// the same tick parks several times: 4-6 channels, park at the first add, unsubscribe 1-3 OTHER channels
			// completely, let the tick run to its next add, unsubscribe THAT channel (or close), release
			x := conn()
			nch := rapid.IntRange(4, 6).Draw(rt, "multiChans")
			for k := 0; k < nch; k++ {
				c.Steps = append(c.Steps, vfC06Step{Kind: 0, Conn: x, Ch: k, Mode: rapid.IntRange(0, 1).Draw(rt, "mode")})
			}
			c.Steps = append(c.Steps, vfC06Step{Kind: 3, Conn: x, Multi: true})
			for n := rapid.IntRange(1, 3).Draw(rt, "nOther"); n > 0; n-- {
				c.Steps = append(c.Steps, vfC06Step{Kind: 1, OnParked: true, PickOther: true, Ch: rapid.IntRange(0, 5).Draw(rt, "och"), Mode: rapid.IntRange(0, 2).Draw(rt, "mode")})
			}
			c.Steps = append(c.Steps, vfC06Step{Kind: 6})
			if rapid.IntRange(0, 4).Draw(rt, "closeAtSecond") == 0 {
				c.Steps = append(c.Steps, vfC06Step{Kind: 2, OnParked: true, Mode: rapid.IntRange(0, 1).Draw(rt, "mode")})
			} else {
				c.Steps = append(c.Steps, vfC06Step{Kind: 1, OnParked: true, PickParked: true, Ch: chn(), Mode: rapid.IntRange(0, 2).Draw(rt, "mode")})
				if rapid.Bool().Draw(rt, "again") {
					c.Steps = append(c.Steps, vfC06Step{Kind: 6})
					c.Steps = append(c.Steps, vfC06Step{Kind: 1, OnParked: true, PickParked: true, Ch: chn(), Mode: rapid.IntRange(0, 2).Draw(rt, "mode")})
				}
			}
			c.Steps = append(c.Steps, vfC06Step{Kind: 4})
			continue
		}
		c.Steps = append(c.Steps, vfC06Step{Kind: 3, Conn: conn()})
		switch variant {
		case 0: // a few operations (mostly on the parked connection), then release
			for n := rapid.IntRange(1, 3).Draw(rt, "nin"); n > 0; n-- {
				s := free()
				if rapid.IntRange(0, 3).Draw(rt, "onParked") > 0 {
					s.OnParked = true
					if s.Kind == 1 {
						s.PickParked = rapid.IntRange(0, 3).Draw(rt, "pick") > 0
					}
				}
				c.Steps = append(c.Steps, s)
			}
			c.Steps = append(c.Steps, vfC06Step{Kind: 4, RmGate: rapid.Bool().Draw(rt, "rm")})
		case 1: // unsubscribe the parked channel, park the compensating remove, re-subscribe, release
			c.Steps = append(c.Steps, vfC06Step{Kind: 1, OnParked: true, PickParked: true, Ch: chn(), Mode: rapid.IntRange(0, 2).Draw(rt, "mode")})
			c.Steps = append(c.Steps, vfC06Step{Kind: 4, RmGate: true})
			if rapid.IntRange(0, 3).Draw(rt, "resub") > 0 {
				c.Steps = append(c.Steps, vfC06Step{Kind: 0, OnParked: true, PickRm: true, Ch: chn(), Mode: rapid.IntRange(0, 1).Draw(rt, "mode")})
			}
			if rapid.IntRange(0, 2).Draw(rt, "closeInRm") == 0 {
				c.Steps = append(c.Steps, vfC06Step{Kind: 2, OnParked: true, Mode: rapid.IntRange(0, 1).Draw(rt, "mode")})
			}
			c.Steps = append(c.Steps, vfC06Step{Kind: 4})
		default: // close while the add is parked
			c.Steps = append(c.Steps, vfC06Step{Kind: 2, OnParked: true, Mode: rapid.IntRange(0, 1).Draw(rt, "mode")})
		}
	}
	for n := rapid.IntRange(0, 2).Draw(rt, "tail"); n > 0; n-- {
		c.Steps = append(c.Steps, free())
	}
	return c
}

type vfC06Out struct {
	labels     []string
	nontrivial bool
	known      []string
	knownEx    string
}

// vfC06Presence gates AddPresence ("presence:<conn>:<ch>") and RemovePresence ("rmpresence:<conn>:<ch>").
type vfC06Presence struct {
	inner PresenceManager
	w     *vfWorld
}

func (p *vfC06Presence) Presence(ch string) (map[string]*ClientInfo, error) { return p.inner.Presence(ch) }
func (p *vfC06Presence) PresenceStats(ch string) (PresenceStats, error)      { return p.inner.PresenceStats(ch) }
func (p *vfC06Presence) AddPresence(ch string, clientID string, info *ClientInfo) error {
	if c := p.w.connByID(clientID); c != nil {
		p.w.Gates.Pass("presence:" + c.Name + ":" + ch)
	}
	return p.inner.AddPresence(ch, clientID, info)
}
func (p *vfC06Presence) RemovePresence(ch string, clientID string, userID string) error {
	if c := p.w.connByID(clientID); c != nil {
		p.w.Gates.Pass("rmpresence:" + c.Name + ":" + ch)
	}
	return p.inner.RemovePresence(ch, clientID, userID)
}

func vfC06Run(t *testing.T, cs vfC06Case, out *vfC06Out, isKnown func(string) bool) string {
	return vfBubble(t, func() string {
		randSource = saferand.New(11)
		cfg := Config{ClientPresenceUpdateInterval: 10 * time.Second, clientPresenceUpdateConcurrency: cs.Conc}
		w, err := vfNewWorld(cfg, nil)
		if err != nil {
			return "infra: " + err.Error()
		}
		defer w.Close()
		w.node.SetPresenceManager(&vfC06Presence{inner: w.node.presenceManager, w: w})
		time.Sleep(500 * time.Millisecond)
		subOpts := func(ch string) SubscribeOptions {
			return SubscribeOptions{EmitPresence: true, ChannelInfo: []byte(`{"c":"` + ch + `"}`)}
		}
		w.Connecting = func(c *vfConn, e ConnectEvent) (ConnectReply, error) {
			return ConnectReply{Credentials: &Credentials{UserID: c.User, Info: []byte(`{"n":"` + c.Name + `"}`)}}, nil
		}
		asyncCb := "" // "<conn>:<channel>" whose OnSubscribe callback is answered from another goroutine behind a gate
		w.OnSubscribe = func(c *vfConn, e SubscribeEvent, cb SubscribeCallback) {
			rep := SubscribeReply{Options: subOpts(e.Channel)}
			if asyncCb == c.Name+":"+e.Channel {
				go func() {
					w.Gates.Pass("cb:" + c.Name + ":" + e.Channel)
					cb(rep, nil)
				}()
				return
			}
			cb(rep, nil)
		}
		nc := len(cs.Users)
		conns := make([]*vfConn, nc)
		open := make([]bool, nc)
		model := make([]map[string]bool, nc)
		for i := range conns {
			conns[i] = w.NewConn(vfConnCfg{Name: fmt.Sprintf("c%d", i), User: fmt.Sprintf("u%d", cs.Users[i])})
			conns[i].Connect(nil)
			open[i] = true
			model[i] = map[string]bool{}
		}
		vfSettle()

		// parked tick state (at most one connection at a time)
		parkedConn := -1
		stage := 0 // 1 = adds parked, 2 = compensating removes parked
		var parkedAdds []string
		var rmArmed []string
		keepArmed := map[string]bool{} // multi-park: add gates (by channel) of the parked connection that are still armed
		secondParkOverlap := false
		raceOverlap := false
		unsubDuringPark := map[string]bool{} // channels of parkedConn unsubscribed while its tick was parked
		resubDuringRm := map[string]bool{}   // channels of parkedConn re-subscribed while the compensating remove was parked
		overlapped := false
		healPending := map[string]bool{} // "<conn index>/<channel>": entry possibly deleted by a late compensating remove

		gateAdd := func(ci int, ch string) string { return "presence:" + conns[ci].Name + ":" + ch }
		gateRm := func(ci int, ch string) string { return "rmpresence:" + conns[ci].Name + ":" + ch }
		releaseNames := func(names []string) {
			for _, g := range names {
				w.Gates.Disarm(g)
				for w.Gates.Release(g) {
				}
			}
		}
		spin := func() {
			for i := 0; i < 400; i++ {
				runtime.Gosched()
			}
		}
		releaseAll := func() {
			if parkedConn < 0 {
				return
			}
			var all []string
			for _, ch := range vfC06Chans {
				all = append(all, gateAdd(parkedConn, ch), gateRm(parkedConn, ch))
			}
			releaseNames(all)
			for ch := range resubDuringRm {
				healPending[fmt.Sprintf("%d/%s", parkedConn, ch)] = true
			}
			resubDuringRm = map[string]bool{}
			parkedConn, stage, parkedAdds, rmArmed = -1, 0, nil, nil
			keepArmed = map[string]bool{}
		}

		check := func(where string) string {
			for _, ch := range vfC06Chans {
				pr, err := w.node.Presence(ch)
				if err != nil {
					return fmt.Sprintf("%s: Presence(%s) error %v", where, ch, err)
				}
				want := 0
				users := map[string]bool{}
				for i, c := range conns {
					id := c.Client.ID()
					exp := open[i] && model[i][ch]
					if lib := c.Client.IsSubscribed(ch); lib != exp {
						return fmt.Sprintf("%s: harness model says %s subscribed(%s)=%v, client says %v (not a presence verdict)", where, c.Name, ch, exp, lib)
					}
					got, present := pr.Presence[id]
					if exp {
						want++
						users[c.User] = true
						if !present {
							key := "C06:presence-compensation-removes-entry-of-resubscribed-channel"
							if healPending[fmt.Sprintf("%d/%s", i, ch)] {
								if isKnown(key) {
									out.known = append(out.known, key)
									out.knownEx = cs.String()
									want--
									continue
								}
								return fmt.Sprintf("[%s] %s: %s holds a settled subscription to %s but is absent from its presence", key, where, c.Name, ch)
							}
							return fmt.Sprintf("%s: %s holds a settled subscription to %s but is absent from its presence", where, c.Name, ch)
						}
						wantConn, wantChan := `{"n":"`+c.Name+`"}`, `{"c":"`+ch+`"}`
						if got.ClientID != id || got.UserID != c.User || string(got.ConnInfo) != wantConn || string(got.ChanInfo) != wantChan {
							return fmt.Sprintf("%s: presence(%s)[%s] = {client %s user %s conn %s chan %s}, expected user %s conn %s chan %s", where, ch, c.Name, got.ClientID, got.UserID, got.ConnInfo, got.ChanInfo, c.User, wantConn, wantChan)
						}
					} else if present {
						return fmt.Sprintf("%s: %s (open=%v) has no subscription to %s but its presence still lists it", where, c.Name, open[i], ch)
					}
				}
				for id := range pr.Presence {
					if w.connByID(id) == nil {
						return fmt.Sprintf("%s: presence(%s) lists unknown client %s", where, ch, id)
					}
				}
				_ = want
				st, err := w.node.PresenceStats(ch)
				if err != nil {
					return fmt.Sprintf("%s: PresenceStats(%s) error %v", where, ch, err)
				}
				du := map[string]bool{}
				for _, ci := range pr.Presence {
					du[ci.UserID] = true
				}
				if st.NumClients != len(pr.Presence) || st.NumUsers != len(du) {
					return fmt.Sprintf("%s: PresenceStats(%s) = {clients %d users %d} but Presence has %d clients / %d distinct users", where, ch, st.NumClients, st.NumUsers, len(pr.Presence), len(du))
				}
			}
			return ""
		}

		subscribedChans := func(ci int) []string {
			var chs []string
			for _, ch := range vfC06Chans {
				if model[ci][ch] {
					chs = append(chs, ch)
				}
			}
			return chs
		}

		for si, s := range cs.Steps {
			ci := s.Conn % nc
			if s.OnParked && parkedConn >= 0 {
				ci = parkedConn
			}
			if s.Kind == 3 && (!open[ci] || len(subscribedChans(ci)) == 0) {
				for k := 0; k < nc; k++ { // fall back to the next open connection that has presence subscriptions
					if cand := (ci + k) % nc; open[cand] && len(subscribedChans(cand)) > 0 {
						ci = cand
						break
					}
				}
			}
			conn := conns[ci]
			ch := vfC06Chans[s.Ch]
			if s.Kind == 0 && s.PickRm && ci == parkedConn && stage == 2 {
				for _, g := range rmArmed {
					if w.Gates.Waiting(g) > 0 {
						ch = g[strings.LastIndex(g, ":")+1:]
						break
					}
				}
			}
			switch s.Kind {
			case 0: // subscribe
				if !open[ci] || model[ci][ch] {
					continue
				}
				if ci == parkedConn && keepArmed[ch] {
					continue // its add gate is still armed for the tick: the subscribe's own AddPresence would park the caller
				}
				ok := false
				if s.Mode == 0 {
					id := conn.NextID()
					conn.Cmd(&protocol.Command{Id: id, Subscribe: &protocol.SubscribeRequest{Channel: ch}})
					vfSettle()
					for _, f := range conn.Frames() {
						if f.Reply != nil && f.Reply.Id == id && f.Reply.Subscribe != nil && f.Reply.Error == nil {
							ok = true
						}
					}
				} else {
					o := subOpts(ch)
					err := conn.Client.Subscribe(ch, func(so *SubscribeOptions) { *so = o })
					vfSettle()
					ok = err == nil
				}
				if !ok {
					return fmt.Sprintf("step %d %s: subscribe did not succeed; frames: %s", si, s, vfRenderFrames(conn.Frames()))
				}
				model[ci][ch] = true
				rmPending := false // the tick already decided to remove this channel's entry (parked now, or queued behind the parked one)
			for _, g := range rmArmed {
				if g == gateRm(ci, ch) {
					rmPending = true
				}
			}
			if ci == parkedConn && stage == 2 && rmPending {
					resubDuringRm[ch] = true
					out.labels = append(out.labels, "resubscribe_while_compensating_remove_parked")
				}
			case 1: // unsubscribe
				if !open[ci] {
					continue
				}
				if s.PickParked && ci == parkedConn && len(parkedAdds) > 0 && stage == 1 {
					ch = parkedAdds[0]
				}
				if s.PickOther && ci == parkedConn && stage == 1 {
					var cands []string
					for _, c := range subscribedChans(ci) {
						isParked := false
						for _, pch := range parkedAdds {
							if pch == c {
								isParked = true
							}
						}
						if !isParked {
							cands = append(cands, c)
						}
					}
					if len(cands) == 0 {
						continue
					}
					ch = cands[s.Ch%len(cands)]
				}
				if ci == parkedConn && stage == 2 {
					// the rm gate of this connection is armed: an unsubscribe's own RemovePresence would park the
					// caller; keep the schedule simple and leave this connection alone until released
					continue
				}
				switch s.Mode {
				case 0:
					conn.Cmd(&protocol.Command{Id: conn.NextID(), Unsubscribe: &protocol.UnsubscribeRequest{Channel: ch}})
				case 1:
					conn.Client.Unsubscribe(ch)
				default:
					_ = w.node.Unsubscribe(conn.User, ch, WithUnsubscribeClient(conn.Client.ID()))
				}
				vfSettle()
				if ci == parkedConn && stage == 1 && model[ci][ch] {
					unsubDuringPark[ch] = true
					for _, p := range parkedAdds {
						if p == ch {
							overlapped = true
							out.labels = append(out.labels, "unsubscribe_overlaps_parked_add")
							if secondParkOverlap {
								out.labels = append(out.labels, "unsubscribe_overlaps_later_add_of_same_tick")
							}
						}
					}
				}
				model[ci][ch] = false
			case 2: // close
				if !open[ci] {
					continue
				}
				if ci == parkedConn {
					if s.Mode == 0 {
						go conn.TransportClose()
					} else {
						conn.Client.Disconnect(DisconnectForceReconnect)
					}
					spin()
					if stage == 1 {
						overlapped = true
						out.labels = append(out.labels, "close_overlaps_parked_add")
					}
					releaseAll()
					vfSettle()
				} else {
					if s.Mode == 0 {
						conn.TransportClose()
					} else {
						conn.Client.Disconnect(DisconnectForceReconnect)
					}
					vfSettle()
				}
				open[ci] = false
				model[ci] = map[string]bool{}
			case 3: // park the next presence tick of this connection inside AddPresence
				if parkedConn >= 0 || !open[ci] {
					continue
				}
				chs := subscribedChans(ci)
				if len(chs) == 0 {
					continue
				}
				var names []string
				for _, c := range chs {
					names = append(names, gateAdd(ci, c))
					w.Gates.Arm(gateAdd(ci, c), 1)
				}
				reached := false
				for i := 0; i < 24 && !reached; i++ {
					time.Sleep(500 * time.Millisecond)
					vfSettle()
					for _, g := range names {
						if w.Gates.Waiting(g) > 0 {
							reached = true
						}
					}
				}
				if !reached {
					releaseNames(names)
					return fmt.Sprintf("step %d: no presence tick of %s within 12 s", si, conn.Name)
				}
				parkedAdds = nil
				for _, c := range chs {
					if w.Gates.Waiting(gateAdd(ci, c)) > 0 {
						parkedAdds = append(parkedAdds, c)
					} else if s.Multi {
						keepArmed[c] = true
					} else {
						w.Gates.Disarm(gateAdd(ci, c))
					}
				}
				sort.Strings(parkedAdds)
				secondParkOverlap = false
				parkedConn, stage = ci, 1
				unsubDuringPark = map[string]bool{}
				resubDuringRm = map[string]bool{}
				out.labels = append(out.labels, fmt.Sprintf("tick_parked_adds=%d", len(parkedAdds)))
			case 4: // release
				if parkedConn < 0 {
					continue
				}
				if stage == 1 && s.RmGate && len(unsubDuringPark) > 0 {
					rmArmed = nil
					for c := range unsubDuringPark {
						if !model[parkedConn][c] {
							rmArmed = append(rmArmed, gateRm(parkedConn, c))
							w.Gates.Arm(gateRm(parkedConn, c), 1)
						}
					}
					sort.Strings(rmArmed)
					var adds []string
					for _, c := range vfC06Chans {
						adds = append(adds, gateAdd(parkedConn, c))
					}
					releaseNames(adds)
					vfSettle()
					waiting := 0
					for _, g := range rmArmed {
						waiting += w.Gates.Waiting(g)
					}
					if waiting > 0 {
						stage = 2
						out.labels = append(out.labels, "compensating_remove_parked")
						continue
					}
				}
				releaseAll()
				vfSettle()
			case 6: // release only the parked adds; the tick runs on to its next (still armed) AddPresence and parks again
				if parkedConn < 0 || stage != 1 {
					continue
				}
				for _, c := range parkedAdds {
					for w.Gates.Release(gateAdd(parkedConn, c)) {
					}
				}
				vfSettle()
				parkedAdds = nil
				for _, c := range vfC06Chans {
					if w.Gates.Waiting(gateAdd(parkedConn, c)) > 0 {
						parkedAdds = append(parkedAdds, c)
						delete(keepArmed, c)
					}
				}
				sort.Strings(parkedAdds)
				if len(parkedAdds) == 0 {
					releaseAll() // the tick finished (nothing left to add)
					vfSettle()
					continue
				}
				secondParkOverlap = true
				out.labels = append(out.labels, "same_tick_parked_again")
			case 7: // unsubscribe while a subscribe with presence is in flight (reservation only, flags == 0)
				if parkedConn >= 0 || !open[ci] || model[ci][ch] {
					continue
				}
				gate := gateAdd(ci, ch)
				if s.SubGate == 0 {
					gate = "cb:" + conn.Name + ":" + ch
					asyncCb = conn.Name + ":" + ch
				}
				w.Gates.Arm(gate, 1)
				if s.SubGate == 0 || s.Mode == 0 {
					go conn.Cmd(&protocol.Command{Id: conn.NextID(), Subscribe: &protocol.SubscribeRequest{Channel: ch}})
				} else {
					o := subOpts(ch)
					go func() { _ = conn.Client.Subscribe(ch, func(so *SubscribeOptions) { *so = o }) }()
				}
				vfSettle()
				asyncCb = ""
				if w.Gates.Waiting(gate) == 0 {
					releaseNames([]string{gate})
					return fmt.Sprintf("step %d %s: the subscribe did not reach its gate; frames: %s", si, s, vfRenderFrames(conn.Frames()))
				}
				switch s.UnsubMode {
				case 0:
					go conn.Cmd(&protocol.Command{Id: conn.NextID(), Unsubscribe: &protocol.UnsubscribeRequest{Channel: ch}})
				case 1:
					go conn.Client.Unsubscribe(ch)
				default:
					go func() { _ = w.node.Unsubscribe(conn.User, ch, WithUnsubscribeClient(conn.Client.ID())) }()
				}
				vfSettle() // the unsubscribe now waits on the reservation's subscribingCh (channel + timer: durable)
				if s.Hold {
					time.Sleep(6 * time.Second) // past the 5 s wait: the unsubscribe gives up and disconnects the client
					vfSettle()
				}
				releaseNames([]string{gate})
				vfSettle()
				time.Sleep(100 * time.Millisecond)
				vfSettle()
				out.labels = append(out.labels, "unsubscribe_waits_for_inflight_subscribe")
				raceOverlap = true
				conn.Client.mu.RLock()
				closedNow := conn.Client.status == statusClosed
				conn.Client.mu.RUnlock()
				if closedNow {
					out.labels = append(out.labels, "unsubscribe_wait_timed_out_connection_closed")
					open[ci] = false
					model[ci] = map[string]bool{}
				}
				// otherwise the unsubscribe was ordered after the subscribe and tore it down: model stays "not subscribed"
			case 5:
				time.Sleep(time.Duration(s.Adv) * time.Second)
				vfSettle()
				if s.Adv >= 11 && parkedConn < 0 {
					healPending = map[string]bool{} // every open connection ticked at least once since
				}
			}
			if parkedConn < 0 {
				if m := check(fmt.Sprintf("after step %d %s", si, s)); m != "" {
					return m
				}
			}
		}
		releaseAll()
		vfSettle()
		time.Sleep(2 * time.Second)
		vfSettle()
		if m := check("at the settled end"); m != "" {
			return m
		}
		if overlapped || raceOverlap {
			out.nontrivial = true
			out.labels = append(out.labels, "world_nontrivial")
		}
		return ""
	})
}

func TestVF_C06_World(t *testing.T) {
	vfCheck(t, "C06", func(rt *rapid.T, c *vfCase) string {
		cs := vfC06Gen(rt)
		c.Describe(cs.String())
		out := &vfC06Out{}
		msg := vfC06Run(t, cs, out, c.IsKnown)
		seen := map[string]bool{}
		for _, l := range out.labels {
			if !seen[l] {
				seen[l] = true
				c.Label(l)
			}
		}
		c.Label("world_case")
		for _, k := range out.known {
			c.Known(k, out.knownEx)
		}
		if out.nontrivial {
			c.Nontrivial(c.desc)
		}
		return msg
	})
}
