package PKGNAME

import (
	"fmt"
	"runtime"
	"runtime/debug"
	"strings"
	"testing"
	"testing/synctest"
)

// vfBubble runs f inside a testing/synctest bubble (virtual clock, quiescence detection) and returns its verdict.
// f must not touch rapid; every goroutine it starts must have exited when it returns. A panic on f's goroutine is
// returned as a verdict text starting with "PANIC:". Two GC cycles afterwards empty sync.Pools so that pooled
// timers created in this bubble are never reused in the next one.
func vfBubble(t *testing.T, f func() string) (verdict string) {
	var out string
	defer func() {
		// synctest itself panics on the caller's goroutine when the bubble deadlocks (e.g. the main bubble goroutine
		// returned while other bubble goroutines are still durably blocked). Report it as a verdict with all stacks.
		if r := recover(); r != nil {
			buf := make([]byte, 1<<20)
			n := runtime.Stack(buf, true)
			verdict = fmt.Sprintf("BUBBLE-PANIC: %v\n%s", r, vfBubbleStacks(string(buf[:n])))
		}
	}()
	synctest.Test(t, func(st *testing.T) {
		defer func() {
			if r := recover(); r != nil {
				out = fmt.Sprintf("PANIC: %v\n%s", r, debug.Stack())
			}
		}()
		out = f()
	})
	runtime.GC()
	runtime.GC()
	return out
}

// vfSettle waits until every other goroutine of the bubble is durably blocked.
func vfSettle() { synctest.Wait() }

// vfBubbleStacks keeps only goroutines that belong to a synctest bubble (their header mentions "synctest").
func vfBubbleStacks(all string) string {
	var keep []string
	for _, g := range strings.Split(all, "\n\n") {
		if strings.Contains(g, "synctest") {
			if len(g) > 3000 {
				g = g[:3000]
			}
			keep = append(keep, g)
		}
	}
	if len(keep) > 12 {
		keep = keep[:12]
	}
	return strings.Join(keep, "\n\n")
}
