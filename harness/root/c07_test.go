package PKGNAME

// C07 — Join and leave events are paired and ordered.
// One observer connection stays subscribed to channel "ch" with PushJoinLeave. Two subject slots subscribe with
// EmitJoinLeave (client command, server-side Client.Subscribe, connect-time subscription), fail (callback error,
// presence error, broker subscribe error on the unobserved channel "solo"), get rolled back (connection closed while
// the subscribe is parked) and are ended by unsubscribe command / Client.Unsubscribe / Client.Disconnect / transport
// close, issued after or WHILE the subscribe is in flight (parked in an asynchronous callback, in AddPresence, in
// PublishJoin right after the commit, or in the reply write).
// Oracle: the observer's ordered join/leave pushes (channel "ch") and the ordered join/leave emissions at the broker
// boundary (channel "solo", which nobody observes): per (client, channel) the sequence is (join leave)* plus a
// trailing join iff the subscription is alive at the end; joins == established attempts (read from the subject's own
// frames); nothing is emitted for an attempt that was not established.

import (
	"fmt"
	"strings"
	"sync"
	"sync/atomic"
	"testing"
	"time"

	"github.com/centrifugal/protocol"
	"pgregory.net/rapid"
)

const (
	vfC07Sub = iota
	vfC07End
	vfC07Release
	vfC07Reconnect
	vfC07Adv
)

type vfC07Step struct {
	Kind    int
	Slot    int
	Solo    bool
	Fail    int // 0 none, 1 callback error reply, 2 callback disconnect, 3 presence error, 4 broker subscribe error
	Gate    int // 0 none, 1 asynchronous callback parked, 2 AddPresence, 3 PublishJoin (after the commit), 4 reply write
	EndKind int // 0 unsubscribe command, 1 Client.Unsubscribe, 2 Client.Disconnect, 3 transport close
	Adv     int // ms
}

type vfC07Case struct {
	Proto    ProtocolType
	RWQ      bool
	Presence bool
	NoEmit   bool   // subjects subscribe without EmitJoinLeave: nothing may be emitted at all
	BatchSize    int // per-channel batching of the observed channel (0/0 = off); MaxDelay is always set when on, so
	BatchDelayMs int // that everything pending is flushed before the observer's frames are judged
	Modes    [2]int // per slot: 0 client command, 1 Client.Subscribe, 2 connect-time first, then Client.Subscribe
	Steps    []vfC07Step
}

func (s vfC07Step) String() string {
	ch := "ch"
	if s.Solo {
		ch = "solo"
	}
	switch s.Kind {
	case vfC07Sub:
		return fmt.Sprintf("s%d.subscribe(%s fail=%s gate=%s)", s.Slot, ch,
			[]string{"none", "cbError", "cbDisconnect", "presenceError", "brokerSubscribeError"}[s.Fail],
			[]string{"none", "asyncCallback", "AddPresence", "PublishJoin", "replyWrite"}[s.Gate])
	case vfC07End:
		return fmt.Sprintf("s%d.end(%s %s)", s.Slot, ch, []string{"unsubscribeCmd", "Client.Unsubscribe", "Client.Disconnect", "transportClose"}[s.EndKind])
	case vfC07Release:
		return fmt.Sprintf("s%d.release", s.Slot)
	case vfC07Reconnect:
		return fmt.Sprintf("s%d.reconnect", s.Slot)
	}
	return fmt.Sprintf("adv(%dms)", s.Adv)
}

func (c vfC07Case) String() string {
	st := make([]string, len(c.Steps))
	for i, s := range c.Steps {
		st[i] = s.String()
	}
	return fmt.Sprintf("proto=%s rwq=%v presence=%v noEmit=%v batch{size=%d delay=%dms} modes=%v steps=[%s]", c.Proto, c.RWQ, c.Presence, c.NoEmit, c.BatchSize, c.BatchDelayMs, c.Modes, strings.Join(st, " "))
}

func vfC07Gen(rt *rapid.T) vfC07Case {
	c := vfC07Case{}
	c.Proto = rapid.SampledFrom([]ProtocolType{ProtocolTypeJSON, ProtocolTypeProtobuf}).Draw(rt, "proto")
	c.RWQ = rapid.Bool().Draw(rt, "rwq")
	c.Presence = rapid.IntRange(0, 3).Draw(rt, "presence") > 0
	c.NoEmit = rapid.IntRange(0, 7).Draw(rt, "noEmit") == 0
	if rapid.Bool().Draw(rt, "batching") {
		c.BatchDelayMs = rapid.SampledFrom([]int{50, 400}).Draw(rt, "bdelay")
		c.BatchSize = rapid.SampledFrom([]int{0, 2, 3}).Draw(rt, "bsize")
	}
	for i := range c.Modes {
		c.Modes[i] = rapid.SampledFrom([]int{0, 0, 0, 1, 1, 2}).Draw(rt, "mode")
	}
	n := rapid.IntRange(3, 22).Draw(rt, "nsteps")
	kinds := []int{vfC07Sub, vfC07Sub, vfC07Sub, vfC07Sub, vfC07End, vfC07End, vfC07End, vfC07End, vfC07Release, vfC07Release, vfC07Release, vfC07Reconnect, vfC07Adv}
	for i := 0; i < n; i++ {
		s := vfC07Step{Kind: rapid.SampledFrom(kinds).Draw(rt, "kind"), Slot: rapid.IntRange(0, 1).Draw(rt, "slot")}
		if i == 0 {
			s.Kind = vfC07Sub
		}
		switch s.Kind {
		case vfC07Sub:
			s.Solo = rapid.IntRange(0, 4).Draw(rt, "solo") == 0
			s.Fail = rapid.SampledFrom([]int{0, 0, 0, 0, 0, 0, 0, 1, 2, 3, 4}).Draw(rt, "fail")
			if s.Fail == 4 {
				s.Solo = true
			}
			s.Gate = rapid.SampledFrom([]int{0, 0, 1, 1, 2, 2, 3, 3, 3, 4}).Draw(rt, "gate")
		case vfC07End:
			s.Solo = rapid.IntRange(0, 4).Draw(rt, "solo") == 0
			s.EndKind = rapid.SampledFrom([]int{0, 0, 1, 1, 2, 3}).Draw(rt, "endKind")
		case vfC07Adv:
			s.Adv = rapid.SampledFrom([]int{10, 300, 1100}).Draw(rt, "adv")
		}
		c.Steps = append(c.Steps, s)
	}
	return c
}

type vfC07Attempt struct {
	tag      int
	slot     int
	ch       string
	conn     *vfConn
	clientID string
	fail     int
	gate     int
	cmdID    uint32
	done     atomic.Bool // the subscribe operation returned
	overlap  bool        // an end operation of the same connection was issued before the subscribe operation returned
	endIssued bool       // an end operation targeting this attempt was issued after the attempt started
	viaConn  bool        // connect-time subscription
	reached  *atomic.Bool // the subscribe handler was invoked (client-side attempts)
}

type vfC07Slot struct {
	idx       int
	mode      int
	gen       int
	conn      *vfConn
	connected bool
	cmds      map[*vfConn]map[uint32]string // unsubscribe command id -> channel
	cur       atomic.Pointer[vfC07Attempt] // attempt whose subscribe is in flight / last attempt
	subBusy   atomic.Bool
	endBusy   atomic.Bool
	connBusy  atomic.Bool
	parkedAt  string        // gate name the in-flight subscribe was sent to ("" none)
	wgate     chan struct{} // reply-write gate
	failPres  atomic.Bool
}

type vfC07Emit struct {
	kind   string // join | leave
	ch     string
	client string
	tag    int
}

type vfC07Out struct {
	labels     []string
	nontrivial bool
	known      []string
	knownEx    string
}

// vfC07Presence routes AddPresence through a per-client hook (gate / injected error).
type vfC07Presence struct {
	inner PresenceManager
	add   func(ch, clientID string) error
}

func (p *vfC07Presence) Presence(ch string) (map[string]*ClientInfo, error) { return p.inner.Presence(ch) }
func (p *vfC07Presence) PresenceStats(ch string) (PresenceStats, error)      { return p.inner.PresenceStats(ch) }
func (p *vfC07Presence) AddPresence(ch string, clientID string, info *ClientInfo) error {
	if err := p.add(ch, clientID); err != nil {
		return err
	}
	return p.inner.AddPresence(ch, clientID, info)
}
func (p *vfC07Presence) RemovePresence(ch string, clientID string, userID string) error {
	return p.inner.RemovePresence(ch, clientID, userID)
}

func vfC07Info(tag int) []byte { return []byte(fmt.Sprintf(`{"k":%d}`, tag)) }

func vfC07Tag(b []byte) int {
	var k int
	if _, err := fmt.Sscanf(string(b), `{"k":%d}`, &k); err != nil {
		return -1
	}
	return k
}

func vfC07Run(t *testing.T, cs vfC07Case, out *vfC07Out, isKnown func(string) bool) string {
	return vfBubble(t, func() string {
		var idMu sync.Mutex
		slotByClient := map[string]*vfC07Slot{}
		slotOf := func(id string) *vfC07Slot {
			idMu.Lock()
			defer idMu.Unlock()
			return slotByClient[id]
		}
		var failBrokerSub atomic.Bool
		var emMu sync.Mutex
		var emissions []vfC07Emit

		cfg := Config{}
		if cs.BatchDelayMs > 0 {
			bc := ChannelBatchConfig{MaxSize: int64(cs.BatchSize), MaxDelay: time.Duration(cs.BatchDelayMs) * time.Millisecond}
			cfg.GetChannelBatchConfig = func(c string) ChannelBatchConfig {
				if c == "ch" {
					return bc
				}
				return ChannelBatchConfig{}
			}
		}
		w, err := vfNewWorld(cfg, func(w *vfWorld) {
			w.node.SetPresenceManager(&vfC07Presence{inner: w.node.presenceManager, add: func(ch, id string) error {
				if sl := slotOf(id); sl != nil {
					w.Gates.Pass(fmt.Sprintf("padd:%d", sl.idx))
					if sl.failPres.Load() {
						return fmt.Errorf("vf: injected presence error")
					}
				}
				return nil
			}})
		})
		if err != nil {
			return "infra: " + err.Error()
		}
		defer w.Close()
		w.broker.Hook = func(op, phase, ch string) error {
			if phase != "before" {
				return nil
			}
			switch op {
			case "publish_join":
				w.Gates.Pass("pjoin")
			case "subscribe":
				if ch == "solo" && failBrokerSub.Load() {
					return fmt.Errorf("vf: injected broker subscribe error")
				}
			}
			return nil
		}
		w.broker.Fault = func(d vfDelivery) vfFault {
			if d.Kind == "join" || d.Kind == "leave" {
				emMu.Lock()
				emissions = append(emissions, vfC07Emit{kind: d.Kind, ch: d.Ch, client: d.Info.ClientID, tag: vfC07Tag(d.Info.ChanInfo)})
				emMu.Unlock()
			}
			return vfDeliver
		}

		slots := [2]*vfC07Slot{}
		var attempts []*vfC07Attempt
		tagCounter := 0
		optsFor := func(a *vfC07Attempt) SubscribeOptions {
			return SubscribeOptions{EmitJoinLeave: !cs.NoEmit, EmitPresence: cs.Presence, ChannelInfo: vfC07Info(a.tag), Data: vfC07Info(a.tag)}
		}
		w.Connecting = func(c *vfConn, e ConnectEvent) (ConnectReply, error) {
			r := ConnectReply{Credentials: &Credentials{UserID: c.User}, ReplyWithoutQueue: cs.RWQ}
			if sl := slotOf(e.ClientID); sl != nil {
				if a := sl.cur.Load(); a != nil && a.viaConn && a.conn == c {
					r.Subscriptions = map[string]SubscribeOptions{a.ch: optsFor(a)}
				}
			}
			return r, nil
		}
		w.OnSubscribe = func(c *vfConn, e SubscribeEvent, cb SubscribeCallback) {
			if c.Name == "o" {
				cb(SubscribeReply{Options: SubscribeOptions{PushJoinLeave: true}}, nil)
				return
			}
			sl := slotOf(c.Client.ID())
			a := sl.cur.Load()
			if a.reached != nil {
				a.reached.Store(true)
			}
			reply := SubscribeReply{Options: optsFor(a)}
			var rerr error
			switch a.fail {
			case 1:
				rerr = ErrorPermissionDenied
			case 2:
				rerr = DisconnectServerError
			}
			if a.gate != 0 {
				// asynchronous subscribe handler (the read loop continues; further commands of this client can be
				// processed while the subscribe is in flight)
				go func() {
					if a.gate == 1 {
						w.Gates.Pass(fmt.Sprintf("cb:%d", sl.idx))
					}
					cb(reply, rerr)
					a.done.Store(true)
					sl.subBusy.Store(false)
				}()
				return
			}
			cb(reply, rerr)
		}

		obs := w.NewConn(vfConnCfg{Name: "o", User: "obs", Proto: cs.Proto})
		obs.Connect(nil)
		obs.Cmd(&protocol.Command{Id: obs.NextID(), Subscribe: &protocol.SubscribeRequest{Channel: "ch"}})
		vfSettle()

		newConn := func(sl *vfC07Slot) {
			sl.gen++
			sl.conn = w.NewConn(vfConnCfg{Name: fmt.Sprintf("s%d.%d", sl.idx, sl.gen), User: fmt.Sprintf("u%d", sl.idx), Proto: cs.Proto})
			sl.connected = false
			sl.cmds[sl.conn] = map[uint32]string{}
			idMu.Lock()
			slotByClient[sl.conn.Client.ID()] = sl
			idMu.Unlock()
		}
		for i := range slots {
			slots[i] = &vfC07Slot{idx: i, mode: cs.Modes[i], cmds: map[*vfConn]map[uint32]string{}}
			newConn(slots[i])
		}
		closed := func(c *vfConn) bool {
			cl, _ := c.T.Closed()
			return cl
		}
		var parkedSince time.Time
		anyParked := func() bool {
			if len(w.Gates.AnyWaiting()) > 0 {
				return true
			}
			for _, sl := range slots {
				if sl.wgate != nil && sl.subBusy.Load() {
					return true
				}
			}
			return false
		}
		noteParked := func() {
			if anyParked() {
				if parkedSince.IsZero() {
					parkedSince = time.Now()
				}
			} else {
				parkedSince = time.Time{}
			}
		}
		releaseSlot := func(sl *vfC07Slot) {
			for _, g := range []string{fmt.Sprintf("cb:%d", sl.idx), fmt.Sprintf("padd:%d", sl.idx)} {
				for w.Gates.Release(g) {
				}
			}
			if sl.parkedAt == "pjoin" {
				for w.Gates.Release("pjoin") {
				}
			}
			if sl.wgate != nil {
				sl.conn.T.SetWriteGate(nil)
				close(sl.wgate)
				sl.wgate = nil
			}
			sl.parkedAt = ""
		}

		for _, s := range cs.Steps {
			sl := slots[s.Slot]
			ch := "ch"
			if s.Solo {
				ch = "solo"
			}
			switch s.Kind {
			case vfC07Sub:
				if sl.subBusy.Load() || sl.endBusy.Load() || sl.connBusy.Load() || closed(sl.conn) {
					continue
				}
				viaConn := sl.mode == 2 && !sl.connected
				if !sl.connected && !viaConn {
					sl.conn.Connect(nil)
					vfSettle()
					sl.connected = true
				}
				tagCounter++
				a := &vfC07Attempt{tag: tagCounter, slot: sl.idx, ch: ch, conn: sl.conn, clientID: sl.conn.Client.ID(), fail: s.Fail, gate: s.Gate, viaConn: viaConn}
				clientSide := sl.mode == 0
				// normalise what does not apply to the drawn path
				if !clientSide && (a.fail == 1 || a.fail == 2) {
					a.fail = 0
				}
				if a.fail == 3 && !cs.Presence {
					a.fail = 0
				}
				if a.gate == 1 && !clientSide {
					a.gate = 2
				}
				if a.gate == 2 && !cs.Presence {
					a.gate = 3
				}
				if a.gate == 4 && !(clientSide && cs.RWQ && a.fail <= 1) {
					// the reply-write park is only explorable for a direct (ReplyWithoutQueue) write that is not followed by a
					// flushing close: a queued write parks the writer goroutine while it holds the writer mutex
					a.gate = 3
				}
				if a.gate == 3 && (w.Gates.Waiting("pjoin") > 0 || cs.NoEmit) {
					a.gate = 0
				}
				attempts = append(attempts, a)
				sl.cur.Store(a)
				var arms []string
				switch a.gate {
				case 1:
					arms = []string{fmt.Sprintf("cb:%d", sl.idx)}
				case 2:
					arms = []string{fmt.Sprintf("padd:%d", sl.idx)}
				case 3:
					arms = []string{"pjoin"}
				case 4:
					sl.wgate = make(chan struct{})
					sl.conn.T.SetWriteGate(sl.wgate)
				}
				for _, g := range arms {
					w.Gates.Arm(g, 1)
				}
				sl.failPres.Store(a.fail == 3)
				failBrokerSub.Store(a.fail == 4)
				sl.subBusy.Store(true)
				switch {
				case viaConn:
					sl.connected = true
					sl.connBusy.Store(true)
					go func() {
						sl.conn.Connect(nil)
						a.done.Store(true)
						sl.connBusy.Store(false)
						sl.subBusy.Store(false)
					}()
				case clientSide:
					a.cmdID = sl.conn.NextID()
					var reached atomic.Bool
					a.reached = &reached
					go func() {
						sl.conn.Cmd(&protocol.Command{Id: a.cmdID, Subscribe: &protocol.SubscribeRequest{Channel: ch}})
						if a.gate == 0 || !reached.Load() {
							// synchronous handler, or the command was answered before the subscribe handler ran
							a.done.Store(true)
							sl.subBusy.Store(false)
						}
					}()
				default:
					o := optsFor(a)
					go func() {
						_ = sl.conn.Client.Subscribe(ch, func(so *SubscribeOptions) { *so = o })
						a.done.Store(true)
						sl.subBusy.Store(false)
					}()
				}
				vfSettle()
				for _, g := range arms {
					w.Gates.Disarm(g)
				}
				sl.failPres.Store(false)
				failBrokerSub.Store(false)
				sl.parkedAt = ""
				if sl.subBusy.Load() {
					switch a.gate {
					case 1:
						sl.parkedAt = "cb"
					case 2:
						sl.parkedAt = "padd"
					case 3:
						sl.parkedAt = "pjoin"
					case 4:
						sl.parkedAt = "write"
					}
					out.labels = append(out.labels, "subscribe_parked_at_"+sl.parkedAt)
				} else if sl.wgate != nil {
					sl.conn.T.SetWriteGate(nil)
					close(sl.wgate)
					sl.wgate = nil
				}
				noteParked()
			case vfC07End:
				if sl.endBusy.Load() || !sl.connected || closed(sl.conn) {
					continue
				}
				kind := s.EndKind
				if sl.connBusy.Load() && kind != 1 {
					continue // commands / close during a parked connect would block on connectMu (a mutex): not explorable here
				}
				if sl.parkedAt == "write" {
					// The parked direct reply write holds the connection's write mutex: anything else written to this
					// connection would block on that mutex (not explorable with synctest). Allowed: a transport close, and
					// an unsubscribe of the very channel being subscribed (it waits for the subscribe to finish).
					if kind == 2 {
						kind = 3
					}
					if kind < 2 {
						// (it only waits while the reservation is still there; a parked ERROR reply has none)
						sl.conn.Client.mu.RLock()
						resv, ok := sl.conn.Client.channels[ch]
						sl.conn.Client.mu.RUnlock()
						if !ok || resv.subscribingCh == nil {
							continue
						}
					}
				}
				a := sl.cur.Load()
				if a != nil && a.conn == sl.conn && !a.done.Load() && (a.ch == ch || kind >= 2) {
					a.overlap = true
					out.nontrivial = true
					out.labels = append(out.labels, fmt.Sprintf("end_%d_while_subscribe_in_flight", kind))
				}
				sl.endBusy.Store(true)
				c := sl.conn
				for i := len(attempts) - 1; i >= 0; i-- {
					if t := attempts[i]; t.conn == c && (kind >= 2 || t.ch == ch) {
						t.endIssued = true
						if kind < 2 {
							break
						}
					}
				}
				switch kind {
				case 0:
					id := c.NextID()
					sl.cmds[c][id] = ch
					go func() {
						c.Cmd(&protocol.Command{Id: id, Unsubscribe: &protocol.UnsubscribeRequest{Channel: ch}})
						sl.endBusy.Store(false)
					}()
				case 1:
					go func() {
						c.Client.Unsubscribe(ch)
						sl.endBusy.Store(false)
					}()
				case 2:
					go func() {
						_ = c.Client.close(DisconnectForceNoReconnect)
						sl.endBusy.Store(false)
					}()
				case 3:
					go func() {
						c.TransportClose()
						sl.endBusy.Store(false)
					}()
				}
				vfSettle()
				noteParked()
			case vfC07Release:
				if sl.parkedAt != "" || sl.wgate != nil {
					out.labels = append(out.labels, "released_midway")
				}
				releaseSlot(sl)
				vfSettle()
				noteParked()
			case vfC07Reconnect:
				if sl.subBusy.Load() || sl.endBusy.Load() || sl.connBusy.Load() || !closed(sl.conn) {
					continue
				}
				newConn(sl)
				out.labels = append(out.labels, "reconnected")
			case vfC07Adv:
				d := time.Duration(s.Adv) * time.Millisecond
				if !parkedSince.IsZero() && time.Since(parkedSince)+d > 4*time.Second {
					continue // the 5 s unsubscribe wait timeout is not this property's subject
				}
				time.Sleep(d)
				vfSettle()
			}
		}
		for _, sl := range slots {
			releaseSlot(sl)
		}
		w.Gates.ReleaseAll()
		vfSettle()
		time.Sleep(1500 * time.Millisecond)
		vfSettle()
		for _, sl := range slots {
			if sl.subBusy.Load() || sl.endBusy.Load() || sl.connBusy.Load() {
				return fmt.Sprintf("infra: an operation of slot %d did not complete after all gates were released", sl.idx)
			}
		}

		// ---- what the subjects saw: established / ended per attempt ------------------------------------------
		type verdictT struct{ established, ended bool }
		verdicts := map[int]*verdictT{}
		for _, a := range attempts {
			v := &verdictT{}
			verdicts[a.tag] = v
			frames := a.conn.Frames()
			start := -1
			for fi, f := range frames {
				if f.Err != nil {
					return fmt.Sprintf("subject frame undecodable: %v", f.Err)
				}
				r := f.Reply
				switch {
				case r.Subscribe != nil && r.Error == nil && vfC07Tag(r.Subscribe.Data) == a.tag:
					start = fi
				case r.Connect != nil && r.Connect.Subs[a.ch] != nil && vfC07Tag(r.Connect.Subs[a.ch].Data) == a.tag:
					start = fi
				case r.Push != nil && r.Push.Subscribe != nil && r.Push.Channel == a.ch && vfC07Tag(r.Push.Subscribe.Data) == a.tag:
					start = fi
				}
				if start >= 0 {
					break
				}
			}
			if start < 0 {
				continue
			}
			v.established = true
			unsubIDs := map[uint32]string{}
			for _, sl := range slots {
				for id, c := range sl.cmds[a.conn] {
					unsubIDs[id] = c
				}
			}
			for _, f := range frames[start+1:] {
				r := f.Reply
				switch {
				case r.Id != 0 && r.Error == nil && unsubIDs[r.Id] == a.ch && r.Unsubscribe != nil:
					v.ended = true
				case r.Id != 0 && r.Error == nil && unsubIDs[r.Id] == a.ch && r.Subscribe == nil && r.Connect == nil && r.Push == nil:
					v.ended = true // an unsubscribe result is an empty message
				case r.Push != nil && r.Push.Unsubscribe != nil && r.Push.Channel == a.ch:
					v.ended = true
				case r.Push != nil && r.Push.Disconnect != nil:
					v.ended = true
				}
			}
			// With ReplyWithoutQueue the unsubscribe reply can be written before a still queued subscribe push (property
			// C10), so the frame order alone cannot tell; every end operation has completed by now.
			if closed(a.conn) || a.endIssued {
				v.ended = true
			}
		}

		// ---- sequences to judge ------------------------------------------------------------------------------
		var obsSeq []vfC07Emit
		for _, f := range obs.Frames() {
			if f.Err != nil {
				return fmt.Sprintf("observer frame undecodable: %v", f.Err)
			}
			if p := f.Reply.Push; p != nil && p.Channel == "ch" {
				if p.Join != nil {
					obsSeq = append(obsSeq, vfC07Emit{kind: "join", ch: "ch", client: p.Join.Info.GetClient(), tag: vfC07Tag(p.Join.Info.GetChanInfo())})
				}
				if p.Leave != nil {
					obsSeq = append(obsSeq, vfC07Emit{kind: "leave", ch: "ch", client: p.Leave.Info.GetClient(), tag: vfC07Tag(p.Leave.Info.GetChanInfo())})
				}
			}
		}
		if closed(obs) {
			return "infra: the observer connection was closed"
		}
		emMu.Lock()
		var soloSeq []vfC07Emit
		for _, e := range emissions {
			if e.ch == "solo" {
				soloSeq = append(soloSeq, e)
			}
		}
		emMu.Unlock()
		render := func(seq []vfC07Emit) string {
			p := make([]string, len(seq))
			for i, e := range seq {
				short := e.client
				for _, a := range attempts {
					if a.clientID == e.client {
						short = a.conn.Name
						break
					}
				}
				p[i] = fmt.Sprintf("%s(%s #%d)", e.kind, short, e.tag)
			}
			return strings.Join(p, " ")
		}
		const keyOrder = "C07:end-overlapping-subscribe-emits-leave-before-join"
		judge := func(where, ch string, seq []vfC07Emit) string {
			// group attempts by client
			type group struct {
				est   []*vfC07Attempt
				all   []*vfC07Attempt
				alive bool
			}
			groups := map[string]*group{}
			var order []string
			for _, a := range attempts {
				if a.ch != ch {
					continue
				}
				g := groups[a.clientID]
				if g == nil {
					g = &group{}
					groups[a.clientID] = g
					order = append(order, a.clientID)
				}
				g.all = append(g.all, a)
				if verdicts[a.tag].established {
					g.est = append(g.est, a)
					g.alive = !verdicts[a.tag].ended
				}
			}
			for _, e := range seq {
				if groups[e.client] == nil {
					return fmt.Sprintf("%s: %s from a client that never attempted to subscribe to %s; sequence: %s", where, e.kind, ch, render(seq))
				}
			}
			for _, id := range order {
				g := groups[id]
				name := g.all[0].conn.Name
				var mine []vfC07Emit
				for _, e := range seq {
					if e.client == id {
						mine = append(mine, e)
					}
				}
				if cs.NoEmit {
					if len(mine) > 0 {
						return fmt.Sprintf("%s: %s emitted %s although its subscriptions do not emit join/leave", where, name, render(mine))
					}
					continue
				}
				estTags := map[int]*vfC07Attempt{}
				for _, a := range g.est {
					estTags[a.tag] = a
				}
				joins, leaves := 0, 0
				for i := 0; i < len(mine); i++ {
					e := mine[i]
					expectJoin := joins == leaves
					switch {
					case e.kind == "join" && expectJoin:
						joins++
					case e.kind == "leave" && !expectJoin:
						leaves++
					case e.kind == "leave" && expectJoin && i+1 < len(mine) && mine[i+1].kind == "join":
						// leave delivered before the join of the same subscription
						a := estTags[mine[i+1].tag]
						msg := fmt.Sprintf("%s: %s: leave precedes the join of the same subscription (#%d); sequence of this client: %s", where, name, mine[i+1].tag, render(mine))
						if a != nil && a.overlap {
							if isKnown(keyOrder) {
								out.known = append(out.known, keyOrder)
								out.knownEx = msg
								joins++
								leaves++
								i++
								continue
							}
							return "[" + keyOrder + "] " + msg
						}
						return msg
					case e.kind == "join":
						return fmt.Sprintf("%s: %s: a second join without a leave in between; sequence of this client: %s", where, name, render(mine))
					default:
						return fmt.Sprintf("%s: %s: a leave without a preceding join; sequence of this client: %s", where, name, render(mine))
					}
					if e.kind == "join" {
						if _, ok := estTags[e.tag]; !ok {
							return fmt.Sprintf("%s: %s: join emitted for attempt #%d which was not established (no successful subscribe reply/push reached the subject); sequence of this client: %s", where, name, e.tag, render(mine))
						}
					}
				}
				if joins != len(g.est) {
					return fmt.Sprintf("%s: %s: %d joins for %d established subscriptions; sequence of this client: %s", where, name, joins, len(g.est), render(mine))
				}
				wantLeaves := joins
				if g.alive {
					wantLeaves--
				}
				if leaves != wantLeaves {
					return fmt.Sprintf("%s: %s: %d leaves, expected %d (%d established, alive at end=%v); sequence of this client: %s", where, name, leaves, wantLeaves, len(g.est), g.alive, render(mine))
				}
			}
			return ""
		}
		if m := judge("observer", "ch", obsSeq); m != "" {
			return m
		}
		if m := judge("broker emissions (unobserved channel)", "solo", soloSeq); m != "" {
			return m
		}

		// ---- labels ------------------------------------------------------------------------------------------
		nEst, nFailed, nEnded := 0, 0, 0
		for _, a := range attempts {
			v := verdicts[a.tag]
			if v.established {
				nEst++
				if v.ended {
					nEnded++
				}
				if a.overlap {
					out.labels = append(out.labels, "established_despite_overlapping_end")
				}
			} else {
				nFailed++
				if a.fail != 0 {
					out.nontrivial = true
					out.labels = append(out.labels, fmt.Sprintf("failed_by_injection_%d", a.fail))
				} else if a.overlap {
					out.labels = append(out.labels, "rolled_back_by_overlapping_end")
				} else {
					out.labels = append(out.labels, "not_established_other")
				}
			}
		}
		if nEst > 0 {
			out.labels = append(out.labels, "some_established")
		}
		if nEnded > 0 {
			out.labels = append(out.labels, "some_ended")
		}
		if nFailed > 0 {
			out.labels = append(out.labels, "some_not_established")
			out.nontrivial = true
		}
		for _, e := range obsSeq {
			if e.tag < 0 {
				out.labels = append(out.labels, "leave_or_join_without_channel_info")
				break
			}
		}
		if len(obsSeq) >= 4 {
			out.labels = append(out.labels, "observer_saw_4plus_events")
		}
		return ""
	})
}

func TestVF_C07(t *testing.T) {
	vfCheck(t, "C07", func(rt *rapid.T, c *vfCase) string {
		cs := vfC07Gen(rt)
		c.Describe(cs.String())
		out := &vfC07Out{}
		msg := vfC07Run(t, cs, out, c.IsKnown)
		seen := map[string]bool{}
		for _, l := range out.labels {
			if !seen[l] {
				seen[l] = true
				c.Label(l)
			}
		}
		if cs.BatchDelayMs > 0 {
			c.Label("cfg_channel_batching")
		}
		kseen := map[string]bool{}
		for _, k := range out.known {
			if !kseen[k] {
				kseen[k] = true
				c.Known(k, out.knownEx)
			}
		}
		if out.nontrivial {
			c.Nontrivial(c.desc)
		}
		return msg
	})
}
