package PKGNAME

// In-memory Controller connecting several Nodes of one bubble (used by C27, C28, C41).
// Each destination node has a FIFO delivery goroutine (like a PUB/SUB connection); a Fault hook can drop,
// duplicate or hold control messages; held messages are released explicitly (reordering / lateness).

import (
	"sync"
)

type vfCtlMsg struct {
	From, To string
	Data     []byte
}

type vfControlBus struct {
	mu    sync.Mutex
	ports map[string]*vfControlPort
	held  []vfCtlMsg
	// Fault decides per (message, destination); nil = deliver.
	Fault func(m vfCtlMsg) vfFault
	Sent  int
}

type vfControlPort struct {
	bus    *vfControlBus
	nodeID string
	h      ControlEventHandler
	q      chan vfCtlMsg
	stop   chan struct{}
}

func vfNewControlBus() *vfControlBus { return &vfControlBus{ports: map[string]*vfControlPort{}} }

// Port creates the Controller for node n (call from vfNewWorld's pre hook: w.node.SetController(bus.Port(w.node))).
func (b *vfControlBus) Port(n *Node) *vfControlPort {
	p := &vfControlPort{bus: b, nodeID: n.ID(), q: make(chan vfCtlMsg, 4096), stop: make(chan struct{})}
	b.mu.Lock()
	b.ports[p.nodeID] = p
	b.mu.Unlock()
	return p
}

func (p *vfControlPort) RegisterControlEventHandler(h ControlEventHandler) error {
	p.h = h
	go func() {
		for {
			select {
			case m := <-p.q:
				_ = p.h.HandleControl(m.Data)
			case <-p.stop:
				return
			}
		}
	}()
	return nil
}

func (p *vfControlPort) PublishControl(data []byte, nodeID, _ string) error {
	cp := append([]byte(nil), data...)
	p.bus.mu.Lock()
	var dests []*vfControlPort
	for id, d := range p.bus.ports {
		if nodeID == "" || nodeID == id {
			dests = append(dests, d)
		}
	}
	f := p.bus.Fault
	p.bus.Sent++
	p.bus.mu.Unlock()
	for _, d := range dests {
		m := vfCtlMsg{From: p.nodeID, To: d.nodeID, Data: cp}
		act := vfDeliver
		if f != nil && d.nodeID != p.nodeID {
			act = f(m)
		}
		switch act {
		case vfDrop:
		case vfDup:
			d.push(m)
			d.push(m)
		case vfHold:
			p.bus.mu.Lock()
			p.bus.held = append(p.bus.held, m)
			p.bus.mu.Unlock()
		default:
			d.push(m)
		}
	}
	return nil
}

func (p *vfControlPort) push(m vfCtlMsg) {
	select {
	case p.q <- m:
	case <-p.stop:
	}
}

// ReleaseHeld delivers the i-th held control message (modulo count).
func (b *vfControlBus) ReleaseHeld(i int) bool {
	b.mu.Lock()
	if len(b.held) == 0 {
		b.mu.Unlock()
		return false
	}
	i = i % len(b.held)
	m := b.held[i]
	b.held = append(b.held[:i:i], b.held[i+1:]...)
	d := b.ports[m.To]
	b.mu.Unlock()
	if d != nil {
		d.push(m)
	}
	return true
}

func (b *vfControlBus) NumHeld() int {
	b.mu.Lock()
	defer b.mu.Unlock()
	return len(b.held)
}

// Inject delivers raw control data to node `to` as if it came over the bus.
func (b *vfControlBus) Inject(to string, data []byte) {
	b.mu.Lock()
	d := b.ports[to]
	b.mu.Unlock()
	if d != nil {
		d.push(vfCtlMsg{To: to, Data: append([]byte(nil), data...)})
	}
}

// Close stops the delivery goroutines (call after the nodes were shut down).
func (b *vfControlBus) Close() {
	b.mu.Lock()
	defer b.mu.Unlock()
	for _, p := range b.ports {
		select {
		case <-p.stop:
		default:
			close(p.stop)
		}
	}
}

// vfNewCluster creates n worlds (nodes) joined by one control bus. pre runs for each node before Run.
func vfNewCluster(n int, cfg func(i int) Config, pre func(i int, w *vfWorld)) ([]*vfWorld, *vfControlBus, error) {
	bus := vfNewControlBus()
	var ws []*vfWorld
	for i := 0; i < n; i++ {
		i := i
		w, err := vfNewWorld(cfg(i), func(w *vfWorld) {
			w.node.SetController(bus.Port(w.node))
			if pre != nil {
				pre(i, w)
			}
		})
		if err != nil {
			return nil, nil, err
		}
		ws = append(ws, w)
	}
	vfSettle() // node info messages exchanged
	return ws, bus, nil
}
