package PKGNAME

// Small independent tags-filter generator/evaluator used by world checks (C02, C03, C16, C01).
// Restricted grammar (eq, neq, in, nin, ex, nex, and, or, not) over keys {k,j} and values {a,b}.

import (
	"fmt"
	"strings"

	"github.com/centrifugal/protocol"
	"pgregory.net/rapid"
)

type vfTF struct {
	Op   string // "" leaf, and, or, not
	Key  string
	Cmp  string
	Val  string
	Vals []string
	Kids []*vfTF
}

func vfTFGen(rt *rapid.T, label string, depth int) *vfTF {
	kind := rapid.IntRange(0, 9).Draw(rt, label+"_kind")
	if depth <= 0 && kind >= 7 {
		kind = kind % 7
	}
	key := rapid.SampledFrom([]string{"k", "j"}).Draw(rt, label+"_key")
	val := rapid.SampledFrom([]string{"a", "b"}).Draw(rt, label+"_val")
	switch kind {
	case 0, 1:
		return &vfTF{Key: key, Cmp: "eq", Val: val}
	case 2:
		return &vfTF{Key: key, Cmp: "neq", Val: val}
	case 3:
		return &vfTF{Key: key, Cmp: "in", Vals: []string{val, "c"}}
	case 4:
		return &vfTF{Key: key, Cmp: "nin", Vals: []string{val}}
	case 5:
		return &vfTF{Key: key, Cmp: "ex"}
	case 6:
		return &vfTF{Key: key, Cmp: "nex"}
	case 7:
		return &vfTF{Op: "and", Kids: []*vfTF{vfTFGen(rt, label+"l", depth-1), vfTFGen(rt, label+"r", depth-1)}}
	case 8:
		return &vfTF{Op: "or", Kids: []*vfTF{vfTFGen(rt, label+"l", depth-1), vfTFGen(rt, label+"r", depth-1)}}
	default:
		return &vfTF{Op: "not", Kids: []*vfTF{vfTFGen(rt, label+"n", depth-1)}}
	}
}

// vfTFGenOpt draws nil (no filter) with probability ~1/2.
func vfTFGenOpt(rt *rapid.T, label string) *vfTF {
	if rapid.IntRange(0, 1).Draw(rt, label+"_has") == 0 {
		return nil
	}
	return vfTFGen(rt, label, 1)
}

func (f *vfTF) Proto() *protocol.FilterNode {
	if f == nil {
		return nil
	}
	n := &protocol.FilterNode{Op: f.Op, Key: f.Key, Cmp: f.Cmp, Val: f.Val, Vals: append([]string(nil), f.Vals...)}
	for _, k := range f.Kids {
		n.Nodes = append(n.Nodes, k.Proto())
	}
	return n
}

// Match is the independent evaluator (missing key = no value, in no set).
func (f *vfTF) Match(tags map[string]string) bool {
	if f == nil {
		return true
	}
	switch f.Op {
	case "and":
		return f.Kids[0].Match(tags) && f.Kids[1].Match(tags)
	case "or":
		return f.Kids[0].Match(tags) || f.Kids[1].Match(tags)
	case "not":
		return !f.Kids[0].Match(tags)
	}
	v, ok := tags[f.Key]
	switch f.Cmp {
	case "eq":
		return ok && v == f.Val
	case "neq":
		return !ok || v != f.Val
	case "in":
		if !ok {
			return false
		}
		for _, x := range f.Vals {
			if x == v {
				return true
			}
		}
		return false
	case "nin":
		if !ok {
			return true
		}
		for _, x := range f.Vals {
			if x == v {
				return false
			}
		}
		return true
	case "ex":
		return ok
	case "nex":
		return !ok
	}
	panic("vfTF: bad cmp " + f.Cmp)
}

func (f *vfTF) String() string {
	if f == nil {
		return "-"
	}
	if f.Op != "" {
		parts := []string{}
		for _, k := range f.Kids {
			parts = append(parts, k.String())
		}
		return "(" + f.Op + " " + strings.Join(parts, " ") + ")"
	}
	if f.Vals != nil {
		return fmt.Sprintf("%s %s %v", f.Key, f.Cmp, f.Vals)
	}
	if f.Val != "" {
		return fmt.Sprintf("%s %s %s", f.Key, f.Cmp, f.Val)
	}
	return fmt.Sprintf("%s %s", f.Key, f.Cmp)
}

// vfTagsGen draws a tag map over keys {k,j} with values {a,b} or absent; index for rendering.
func vfTagsGen(rt *rapid.T, label string) map[string]string {
	tags := map[string]string{}
	for _, k := range []string{"k", "j"} {
		switch rapid.IntRange(0, 2).Draw(rt, label+"_"+k) {
		case 1:
			tags[k] = "a"
		case 2:
			tags[k] = "b"
		}
	}
	if len(tags) == 0 {
		return nil
	}
	return tags
}

func vfTagsStr(t map[string]string) string {
	if len(t) == 0 {
		return "{}"
	}
	s := "{"
	for _, k := range []string{"k", "j"} {
		if v, ok := t[k]; ok {
			s += k + "=" + v + " "
		}
	}
	return strings.TrimSpace(s) + "}"
}
