package PKGNAME

// C16 — Tags filters are enforced on every delivery path.
//
// Two kinds of generated cases (one rapid test, the kind is drawn):
//   - stream: 1-3 subject connections (client-side subscribe with server+client filter, or connect-time server-side
//     subscriptions with a server filter) on one channel; a script of publishes with drawn tags (delivered / dropped /
//     duplicated at the PUB/SUB boundary), subscribes (plain, stream recovery from a drawn offset, cache recovery, optionally
//     parked right after the history read so that the following publishes land in the recovery buffer), unsubscribes and
//     client-side sub refreshes that return a changed ServerTagsFilter.
//   - map: see the second half of this file (protocol-following map client: state pages, stream pages, live transitions,
//     streamless channel, recovery joins, concurrent writer between the page requests, sub refresh).
//
// Oracle (both kinds): every publication found in ANY field of any frame written to a subject (subscribe reply
// publications/state, connect reply/push subs, publication pushes) is looked up in the harness's own publish log by the id
// carried in its payload (removals: by key/offset) and must satisfy serverTF.Match(tags) && clientTF.Match(tags) under the
// independent evaluator vfTF.Match, with the filters that were in effect for that subject when the frame was produced.

import (
	"context"
	"encoding/json"
	"fmt"
	"sort"
	"strings"
	"testing"
	"time"

	"github.com/centrifugal/protocol"
	"pgregory.net/rapid"
)

// ---------------------------------------------------------------------------------------------------------------------
// case description

type vfC16Sub struct {
	Proto    ProtocolType
	Mode     int // 0 client-side command, 1 connect-time server-side (bidirectional), 2 connect-time server-side (unidirectional)
	ServerTF *vfTF
	ClientTF *vfTF // mode 0 only
	TFOnce   bool  // map: send the client filter only with the first request of a handshake (the server must inherit it)
	SrvRefresh bool // map: the subscription expires after 2 s and is refreshed by the server-side OnSubRefresh path (no client command)
}

type vfC16Step struct {
	Kind    int // stream: 0 publish, 1 subscribe, 2 unsubscribe, 3 sub refresh, 4 release gate
	Conn    int
	Tags    map[string]string
	Fault   int // 0 deliver, 1 drop, 2 dup
	Recover bool
	OffPick int
	Gate    bool
	NewTF   *vfTF
	// map only
	Key     int
	Remove  bool
	Limit   int
	Join    int // map subscribe flavour: 0 full handshake from state, 1 recovery via stream phase, 2 direct-to-live recovery join
	Between [][]vfC16Step // map subscribe: writer operations between the page requests
	GateAt  int           // map subscribe: 0 none, 1 park the live transition before its stream read, 2 after it, 3 at broker subscribe (streamless)
	During  []vfC16Step   // writer operations performed while the live transition is parked
}

type vfC16Case struct {
	Kind int // 0 stream, 1 map
	// stream
	Hist        int // history size; 0 = publications without offsets
	Positioned  bool
	Recoverable bool
	Cache       bool
	AutoCache   bool
	Medium      bool
	// map
	MapMode   int // 1 ephemeral (streamless), 2 recoverable, 3 persistent
	StreamSz  int
	Subs      []vfC16Sub
	PreTags   []map[string]string
	PreKeys   []int
	Steps     []vfC16Step
}

func vfC16Writer(s vfC16Step) string {
	if s.Remove {
		return fmt.Sprintf("rm(k%d)", s.Key)
	}
	f := ""
	if s.Fault != 0 {
		f = []string{"", " DROP", " DUP"}[s.Fault]
	}
	return fmt.Sprintf("pub(k%d %s%s)", s.Key, vfTagsStr(s.Tags), f)
}

func vfC16Writers(ss []vfC16Step) string {
	p := make([]string, len(ss))
	for i, s := range ss {
		p[i] = vfC16Writer(s)
	}
	return "[" + strings.Join(p, " ") + "]"
}

func (s vfC16Step) str(kind int) string {
	if kind == 0 {
		switch s.Kind {
		case 0:
			return fmt.Sprintf("pub(%s %s)", []string{"deliver", "DROP", "DUP"}[s.Fault], vfTagsStr(s.Tags))
		case 1:
			return fmt.Sprintf("sub(s%d recover=%v offPick=%d gate=%v)", s.Conn, s.Recover, s.OffPick, s.Gate)
		case 2:
			return fmt.Sprintf("unsub(s%d)", s.Conn)
		case 3:
			return fmt.Sprintf("subRefresh(s%d newServerTF=%s)", s.Conn, s.NewTF)
		}
		return "releaseGate"
	}
	switch s.Kind {
	case 0:
		return vfC16Writer(s)
	case 1:
		bt := make([]string, len(s.Between))
		for i, b := range s.Between {
			bt[i] = vfC16Writers(b)
		}
		return fmt.Sprintf("mapSub(s%d join=%d limit=%d offPick=%d between=%s gateAt=%d during=%s)", s.Conn, s.Join, s.Limit, s.OffPick,
			strings.Join(bt, ","), s.GateAt, vfC16Writers(s.During))
	case 2:
		return fmt.Sprintf("unsub(s%d)", s.Conn)
	case 3:
		return fmt.Sprintf("subRefresh(s%d newServerTF=%s)", s.Conn, s.NewTF)
	}
	return "?"
}

func (c vfC16Case) String() string {
	subs := make([]string, len(c.Subs))
	for i, s := range c.Subs {
		subs[i] = fmt.Sprintf("s%d{%s mode=%d serverTF=%s clientTF=%s tfOnce=%v srvRefresh=%v}", i, s.Proto, s.Mode, s.ServerTF, s.ClientTF, s.TFOnce, s.SrvRefresh)
	}
	st := make([]string, len(c.Steps))
	for i, s := range c.Steps {
		st[i] = s.str(c.Kind)
	}
	pre := make([]string, len(c.PreTags))
	for i, t := range c.PreTags {
		if c.Kind == 1 {
			pre[i] = fmt.Sprintf("k%d%s", c.PreKeys[i], vfTagsStr(t))
		} else {
			pre[i] = vfTagsStr(t)
		}
	}
	if c.Kind == 0 {
		return fmt.Sprintf("STREAM hist=%d positioned=%v recoverable=%v cache=%v autoCache=%v medium=%v subs=[%s] pre=[%s] steps=[%s]",
			c.Hist, c.Positioned, c.Recoverable, c.Cache, c.AutoCache, c.Medium, strings.Join(subs, " "), strings.Join(pre, " "), strings.Join(st, " "))
	}
	return fmt.Sprintf("MAP mode=%d streamSize=%d subs=[%s] pre=[%s] steps=[%s]", c.MapMode, c.StreamSz, strings.Join(subs, " "),
		strings.Join(pre, " "), strings.Join(st, " "))
}

// vfC16TF draws a filter; with probability 1/2 nil. At least one of the two filters of a subject is non-nil.
func vfC16GenSub(rt *rapid.T, i int, allowServerSide bool) vfC16Sub {
	s := vfC16Sub{}
	l := fmt.Sprintf("s%d", i)
	s.Proto = rapid.SampledFrom([]ProtocolType{ProtocolTypeJSON, ProtocolTypeJSON, ProtocolTypeProtobuf}).Draw(rt, l+"proto")
	if allowServerSide {
		s.Mode = rapid.SampledFrom([]int{0, 0, 0, 0, 1, 2}).Draw(rt, l+"mode")
	}
	s.ServerTF = vfTFGenOpt(rt, l+"stf")
	if s.Mode == 0 {
		s.ClientTF = vfTFGenOpt(rt, l+"ctf")
	}
	if s.ServerTF == nil && s.ClientTF == nil {
		if s.Mode == 0 && rapid.Bool().Draw(rt, l+"which") {
			s.ClientTF = vfTFGen(rt, l+"ctf2", 1)
		} else {
			s.ServerTF = vfTFGen(rt, l+"stf2", 1)
		}
	}
	s.TFOnce = rapid.Bool().Draw(rt, l+"tfonce")
	return s
}

func vfC16GenStream(rt *rapid.T) vfC16Case {
	c := vfC16Case{Kind: 0}
	c.Hist = rapid.SampledFrom([]int{0, 2, 4, 8, 8}).Draw(rt, "hist")
	if c.Hist > 0 {
		switch rapid.IntRange(0, 7).Draw(rt, "posmode") {
		case 0:
		case 1:
			c.Positioned = true
		case 2, 3, 4, 5:
			c.Positioned, c.Recoverable = true, true
		default:
			c.Positioned, c.Recoverable, c.Cache = rapid.Bool().Draw(rt, "cpos"), true, true
			c.AutoCache = rapid.Bool().Draw(rt, "auto")
		}
	}
	c.Medium = rapid.IntRange(0, 3).Draw(rt, "medium") == 0
	ns := rapid.IntRange(1, 3).Draw(rt, "nsubs")
	for i := 0; i < ns; i++ {
		c.Subs = append(c.Subs, vfC16GenSub(rt, i, true))
	}
	np := rapid.IntRange(0, 6).Draw(rt, "npre")
	for i := 0; i < np; i++ {
		c.PreTags = append(c.PreTags, vfTagsGen(rt, "pre"))
	}
	n := rapid.IntRange(3, 18).Draw(rt, "nsteps")
	for i := 0; i < n; i++ {
		k := rapid.SampledFrom([]int{0, 0, 0, 0, 0, 0, 1, 1, 1, 2, 3, 4}).Draw(rt, "kind")
		if i < ns {
			k = 1 // every subject subscribes early
		}
		s := vfC16Step{Kind: k}
		switch k {
		case 0:
			s.Tags = vfTagsGen(rt, "tags")
			s.Fault = rapid.SampledFrom([]int{0, 0, 0, 0, 0, 0, 0, 0, 1, 2}).Draw(rt, "fault")
		case 1:
			s.Conn = rapid.IntRange(0, ns-1).Draw(rt, "conn")
			if i < ns {
				s.Conn = i
			}
			s.Recover = rapid.IntRange(0, 3).Draw(rt, "recover") > 0
			s.OffPick = rapid.SampledFrom([]int{-1, 0, 0, 0, 1, 1, 2, 2, 3, 4, 5, 6, 7}).Draw(rt, "offPick")
			s.Gate = rapid.IntRange(0, 2).Draw(rt, "gate") == 0
		case 2:
			s.Conn = rapid.IntRange(0, ns-1).Draw(rt, "conn")
		case 3:
			s.Conn = rapid.IntRange(0, ns-1).Draw(rt, "conn")
			s.NewTF = vfTFGen(rt, "ntf", 1)
		}
		c.Steps = append(c.Steps, s)
	}
	return c
}

// ---------------------------------------------------------------------------------------------------------------------
// shared run-time pieces

type vfC16Out struct {
	labels     []string
	nontrivial bool
	known      []string
	knownEx    string
}

func (o *vfC16Out) label(l string) { o.labels = append(o.labels, l) }

type vfC16Rec struct {
	ID      int
	Key     string
	Tags    map[string]string
	Removed bool
	Offset  uint64
	Fault   int
}

type vfC16Seen struct {
	Pub   *protocol.Publication
	Where string
	Phase int32 // map: phase of the reply the publication arrived in (-1 push)
	State bool
}

// vfC16FramePubs lists every publication carried by a frame for channel ch.
func vfC16FramePubs(f vfFrame, ch string, cmdCh map[uint32]string) []vfC16Seen {
	var out []vfC16Seen
	r := f.Reply
	if r == nil {
		return nil
	}
	addRes := func(res *protocol.SubscribeResult, where string) {
		if res == nil {
			return
		}
		for _, p := range res.Publications {
			out = append(out, vfC16Seen{Pub: p, Where: where + ".publications", Phase: res.Phase})
		}
		for _, p := range res.State {
			out = append(out, vfC16Seen{Pub: p, Where: where + ".state", Phase: res.Phase, State: true})
		}
	}
	if r.Subscribe != nil && cmdCh[r.Id] == ch {
		addRes(r.Subscribe, fmt.Sprintf("subscribe reply #%d", r.Id))
	}
	if r.Connect != nil {
		addRes(r.Connect.Subs[ch], "connect reply subs")
	}
	if r.History != nil {
		for _, p := range r.History.Publications {
			out = append(out, vfC16Seen{Pub: p, Where: "history reply", Phase: -1})
		}
	}
	if p := r.Push; p != nil {
		if p.Connect != nil {
			addRes(p.Connect.Subs[ch], "connect push subs")
		}
		if p.Pub != nil && p.Channel == ch {
			out = append(out, vfC16Seen{Pub: p.Pub, Where: "publication push", Phase: -1})
		}
	}
	return out
}

func vfC16PayloadID(data []byte) (int, bool) {
	var v struct {
		ID *int `json:"id"`
	}
	if err := json.Unmarshal(data, &v); err != nil || v.ID == nil {
		return 0, false
	}
	return *v.ID, true
}

// vfC16SemDiff reports whether two filters differ on at least one tag map of the generator's tag universe.
func vfC16SemDiff(a, b *vfTF) bool {
	vals := []string{"", "a", "b"}
	for _, k := range vals {
		for _, j := range vals {
			t := map[string]string{}
			if k != "" {
				t["k"] = k
			}
			if j != "" {
				t["j"] = j
			}
			if a.Match(t) != b.Match(t) {
				return true
			}
		}
	}
	return false
}

type vfC16Subject struct {
	idx        int
	cfg        vfC16Sub
	conn       *vfConn
	connN      int
	seen       int // frames already judged
	serverTF   *vfTF
	subscribed bool
	pending    bool // a subscribe is in flight (parked at a gate)
	dead       bool // connection closed
	cmdCh      map[uint32]string
	newTF      *vfTF // filter the next sub refresh returns
	adm, exc   map[string]int
	srvRefreshCalls int
	// map client: position held by the protocol-following client
	hasPos   bool
	posOff   uint64
	posEpoch string
}

func (s *vfC16Subject) clientTF() *vfTF {
	if s.cfg.Mode != 0 {
		return nil
	}
	return s.cfg.ClientTF
}

func (s *vfC16Subject) admits(tags map[string]string) bool {
	return s.serverTF.Match(tags) && s.clientTF().Match(tags)
}

func (s *vfC16Subject) count(path string, tags map[string]string) {
	if s.admits(tags) {
		s.adm[path]++
	} else {
		s.exc[path]++
	}
}

// ---------------------------------------------------------------------------------------------------------------------
// stream kind

func vfC16RunStream(t *testing.T, cs vfC16Case, out *vfC16Out, isKnown func(string) bool) string {
	return vfBubble(t, func() string {
		ch := "ch"
		cfg := Config{}
		if cs.Medium {
			cfg.GetChannelMediumOptions = func(string) ChannelMediumOptions {
				return ChannelMediumOptions{KeepLatestPublication: true}
			}
		}
		w, err := vfNewWorld(cfg, nil)
		if err != nil {
			return "infra: " + err.Error()
		}
		defer w.Close()
		time.Sleep(500 * time.Millisecond)

		subjects := make([]*vfC16Subject, len(cs.Subs))
		byName := map[string]*vfC16Subject{}
		for i, sc := range cs.Subs {
			subjects[i] = &vfC16Subject{idx: i, cfg: sc, serverTF: sc.ServerTF, cmdCh: map[uint32]string{}, adm: map[string]int{}, exc: map[string]int{}}
		}
		farFuture := func() int64 { return time.Now().Unix() + 3600 }
		subOpts := func(s *vfC16Subject) SubscribeOptions {
			o := SubscribeOptions{EnablePositioning: cs.Positioned, EnableRecovery: cs.Recoverable, AllowTagsFilter: true,
				ServerTagsFilter: s.serverTF.Proto()}
			if cs.Cache {
				o.RecoveryMode = RecoveryModeCache
				o.AutoCacheRecover = cs.AutoCache
			}
			return o
		}
		w.ChanOpts = func(c *vfConn, e SubscribeEvent) (SubscribeReply, error) {
			s := byName[c.Name]
			if s == nil {
				return SubscribeReply{}, ErrorPermissionDenied
			}
			o := subOpts(s)
			o.ExpireAt = farFuture()
			return SubscribeReply{Options: o, ClientSideRefresh: true}, nil
		}
		w.Connecting = func(c *vfConn, e ConnectEvent) (ConnectReply, error) {
			r := ConnectReply{Credentials: &Credentials{UserID: c.User}}
			if s := byName[c.Name]; s != nil && s.cfg.Mode != 0 {
				r.Subscriptions = map[string]SubscribeOptions{ch: subOpts(s)}
			}
			return r, nil
		}
		w.PerClient = func(c *vfConn, client *Client) {
			s := byName[c.Name]
			client.OnSubRefresh(func(e SubRefreshEvent, cb SubRefreshCallback) {
				if s == nil || s.newTF == nil {
					cb(SubRefreshReply{ExpireAt: farFuture()}, nil)
					return
				}
				cb(SubRefreshReply{ExpireAt: farFuture(), ServerTagsFilter: s.newTF.Proto()}, nil)
			})
		}
		gateOn := false
		w.broker.Hook = func(op, phase, hch string) error {
			if op == "history" && phase == "after" && hch == ch && gateOn {
				w.Gates.Pass("history")
			}
			return nil
		}
		nextFault := vfDeliver
		w.broker.Fault = func(d vfDelivery) vfFault {
			if d.Kind != "pub" {
				return vfDeliver
			}
			return nextFault
		}

		// ---- publish log -----------------------------------------------------------------------------------------
		var log []vfC16Rec
		byID := map[int]*vfC16Rec{}
		curEpoch := ""
		var top uint64
		faults := 0
		publish := func(tags map[string]string, fault int) string {
			id := len(log) + 1
			data := fmt.Sprintf(`{"id":%d}`, id)
			nextFault = []vfFault{vfDeliver, vfDrop, vfDup}[fault]
			opts := []PublishOption{WithTags(tags)}
			if cs.Hist > 0 {
				opts = append(opts, WithHistory(cs.Hist, 300*time.Second))
			}
			res, err := w.node.Publish(ch, []byte(data), opts...)
			nextFault = vfDeliver
			if err != nil {
				return "infra: publish error: " + err.Error()
			}
			if fault != 0 {
				faults++
			}
			log = append(log, vfC16Rec{ID: id, Tags: tags, Offset: res.Offset, Fault: fault})
			byID[id] = &log[len(log)-1]
			if cs.Hist > 0 {
				curEpoch, top = res.Epoch, res.Offset
			}
			// candidates of the live / buffered paths
			for _, s := range subjects {
				if fault == 1 {
					continue
				}
				if s.subscribed {
					s.count("live", tags)
				} else if s.pending {
					s.count("buffered_during_subscribe", tags)
				}
			}
			return ""
		}
		// log is appended to while byID holds pointers into it: pre-size so that it never reallocates
		log = make([]vfC16Rec, 0, len(cs.PreTags)+len(cs.Steps)+1)
		for _, tg := range cs.PreTags {
			if m := publish(tg, 0); m != "" {
				return m
			}
		}

		// ---- frame processing: state tracking + oracle -----------------------------------------------------------
		type subReq struct {
			recover bool
			offset  uint64
		}
		reqs := map[string]subReq{} // by conn name + id
		judge := func(s *vfC16Subject) string {
			if s.conn == nil {
				return ""
			}
			frames := s.conn.Frames()
			for fi := s.seen; fi < len(frames); fi++ {
				f := frames[fi]
				if f.Err != nil {
					return fmt.Sprintf("s%d frame %d undecodable: %v", s.idx, fi, f.Err)
				}
				r := f.Reply
				var res *protocol.SubscribeResult
				switch {
				case r.Subscribe != nil && r.Error == nil && s.cmdCh[r.Id] == ch:
					res = r.Subscribe
				case r.Connect != nil && r.Connect.Subs[ch] != nil:
					res = r.Connect.Subs[ch]
				case r.Push != nil && r.Push.Connect != nil && r.Push.Connect.Subs[ch] != nil:
					res = r.Push.Connect.Subs[ch]
				}
				if res != nil {
					s.subscribed, s.pending = true, false
					rq := reqs[fmt.Sprintf("%s/%d", s.conn.Name, r.Id)]
					if res.Recovered && !cs.Cache {
						// candidates of the stream recovery path: everything published above the requested offset
						for i := range log {
							if log[i].Offset > rq.offset && log[i].Offset <= top {
								s.count("stream_recovery", log[i].Tags)
							}
						}
					}
					if cs.Cache && res.WasRecovering {
						lo := 0
						if len(log) > cs.Hist {
							lo = len(log) - cs.Hist
						}
						for i := lo; i < len(log); i++ {
							s.count("cache_recovery", log[i].Tags)
						}
					}
				}
				if r.Error != nil && s.cmdCh[r.Id] == ch {
					s.pending = false
				}
				if r.Unsubscribe != nil {
					s.subscribed = false
				}
				if r.Push != nil && r.Push.Channel == ch && r.Push.Unsubscribe != nil {
					s.subscribed = false
				}
				if r.Push != nil && r.Push.Disconnect != nil {
					s.subscribed, s.pending, s.dead = false, false, true
				}
				for _, sp := range vfC16FramePubs(f, ch, s.cmdCh) {
					id, ok := vfC16PayloadID(sp.Pub.Data)
					if !ok {
						return fmt.Sprintf("s%d frame %d (%s): publication payload %q carries no id", s.idx, fi, sp.Where, sp.Pub.Data)
					}
					rec := byID[id]
					if rec == nil {
						return fmt.Sprintf("s%d frame %d (%s): publication id %d was never published", s.idx, fi, sp.Where, id)
					}
					if !s.admits(rec.Tags) {
						return fmt.Sprintf("s%d received publication id=%d (offset %d, tags %s) in %s although its filters exclude it (server filter %s, client filter %s); frames: %s",
							s.idx, id, sp.Pub.Offset, vfTagsStr(rec.Tags), sp.Where, s.serverTF, s.clientTF(), vfRenderFrames(frames))
					}
					out.label("admitted_publication_delivered")
				}
			}
			s.seen = len(frames)
			if closed, _ := s.conn.T.Closed(); closed {
				s.subscribed, s.pending, s.dead = false, false, true
			}
			return ""
		}
		judgeAll := func() string {
			for _, s := range subjects {
				if m := judge(s); m != "" {
					return m
				}
			}
			return ""
		}
		newConn := func(s *vfC16Subject) {
			s.connN++
			name := fmt.Sprintf("s%d.%d", s.idx, s.connN)
			s.conn = w.NewConn(vfConnCfg{Name: name, User: "u", Proto: s.cfg.Proto, Uni: s.cfg.Mode == 2})
			s.seen, s.dead, s.subscribed, s.pending = 0, false, false, false
			s.cmdCh = map[uint32]string{}
			byName[name] = s
		}
		parked := func() bool { return w.Gates.Waiting("history") > 0 }
		release := func() {
			for w.Gates.Release("history") {
			}
			gateOn = false
			w.Gates.Disarm("history")
			vfSettle()
		}

		for si, st := range cs.Steps {
			switch st.Kind {
			case 0:
				if m := publish(st.Tags, st.Fault); m != "" {
					return fmt.Sprintf("step %d: %s", si, m)
				}
				vfSettle()
			case 1:
				s := subjects[st.Conn]
				if s.pending || s.subscribed {
					continue
				}
				gate := st.Gate && !parked() && (cs.Positioned || cs.Recoverable)
				recover := st.Recover && cs.Recoverable
				var off uint64
				if recover {
					if st.OffPick < 0 {
						off = top
					} else {
						off = uint64(st.OffPick) % (top + 2)
					}
				}
				if gate {
					gateOn = true
					w.Gates.Arm("history", 1)
				}
				if s.cfg.Mode == 0 {
					if s.conn == nil || s.dead {
						newConn(s)
						s.conn.Connect(nil)
					}
					id := s.conn.NextID()
					s.cmdCh[id] = ch
					reqs[fmt.Sprintf("%s/%d", s.conn.Name, id)] = subReq{recover: recover, offset: off}
					req := &protocol.SubscribeRequest{Channel: ch, Tf: s.cfg.ClientTF.Proto()}
					if recover {
						req.Recover, req.Offset, req.Epoch = true, off, curEpoch
					}
					s.pending = true
					conn := s.conn
					go conn.Cmd(&protocol.Command{Id: id, Subscribe: req})
				} else {
					// connect-time server-side subscription: a fresh connection per subscribe
					if s.conn != nil && !s.dead {
						s.conn.TransportClose()
						vfSettle()
					}
					newConn(s)
					creq := &protocol.ConnectRequest{}
					if recover {
						creq.Subs = map[string]*protocol.SubscribeRequest{ch: {Recover: true, Offset: off, Epoch: curEpoch}}
					}
					reqs[fmt.Sprintf("%s/%d", s.conn.Name, 1)] = subReq{recover: recover, offset: off}
					reqs[fmt.Sprintf("%s/%d", s.conn.Name, 0)] = subReq{recover: recover, offset: off}
					s.pending = true
					conn := s.conn
					go conn.Connect(creq)
				}
				vfSettle()
				if gate && !parked() {
					gateOn = false
					w.Gates.Disarm("history")
				}
				if gate && parked() {
					out.label("subscribe_parked_after_history_read")
				}
			case 2:
				s := subjects[st.Conn]
				if !s.subscribed || s.conn == nil || s.dead {
					continue
				}
				if s.cfg.Mode == 0 {
					s.conn.Cmd(&protocol.Command{Id: s.conn.NextID(), Unsubscribe: &protocol.UnsubscribeRequest{Channel: ch}})
				} else {
					s.conn.TransportClose()
				}
				vfSettle()
			case 3:
				s := subjects[st.Conn]
				if !s.subscribed || s.cfg.Mode != 0 || s.conn == nil || s.dead {
					continue
				}
				s.newTF = st.NewTF
				before := len(s.conn.Frames())
				s.conn.Cmd(&protocol.Command{Id: s.conn.NextID(), SubRefresh: &protocol.SubRefreshRequest{Channel: ch, Token: "tok"}})
				vfSettle()
				ok := false
				for _, f := range s.conn.Frames()[before:] {
					if f.Reply != nil && f.Reply.SubRefresh != nil && f.Reply.Error == nil {
						ok = true
					}
				}
				if !ok {
					return fmt.Sprintf("step %d: sub refresh of a stream subscription was not answered with a sub refresh result; frames: %s", si, vfRenderFrames(s.conn.Frames()))
				}
				s.serverTF = st.NewTF
				out.label("stream_sub_refresh_changed_server_filter")
			case 4:
				if parked() {
					out.label("gate_released_midway")
				}
				release()
			}
			if m := judgeAll(); m != "" {
				return fmt.Sprintf("after step %d (%s): %s", si, st.str(0), m)
			}
		}
		release()
		time.Sleep(time.Second)
		vfSettle()
		if m := judgeAll(); m != "" {
			return "at the end: " + m
		}
		for _, s := range subjects {
			paths := []string{}
			for p := range s.adm {
				paths = append(paths, p)
			}
			sort.Strings(paths)
			for _, p := range paths {
				if s.adm[p] > 0 && s.exc[p] > 0 {
					out.nontrivial = true
					out.label("nontrivial_path_" + p)
				}
			}
		}
		if faults > 0 {
			out.label("pubsub_fault_injected")
		}
		out.label("kind_stream")
		return ""
	})
}

// ---------------------------------------------------------------------------------------------------------------------
// map kind

// vfC16MapBroker wraps the memory map broker: PUB/SUB faults on its deliveries and gates inside the live transition.
type vfC16MapBroker struct {
	MapBroker
	h     BrokerEventHandler
	fault func() int // 0 deliver, 1 drop, 2 dup
	hook  func(point string)
}

func (b *vfC16MapBroker) Close(ctx context.Context) error {
	if c, ok := b.MapBroker.(Closer); ok {
		return c.Close(ctx)
	}
	return nil
}

func (b *vfC16MapBroker) RegisterEventHandler(h BrokerEventHandler) error {
	b.h = h
	return b.MapBroker.RegisterEventHandler(b)
}

func (b *vfC16MapBroker) HandlePublication(ch string, pub *Publication, sp StreamPosition, useDelta bool, prevPub *Publication) error {
	f := 0
	if b.fault != nil {
		f = b.fault()
	}
	switch f {
	case 1:
		return nil
	case 2:
		_ = b.h.HandlePublication(ch, pub, sp, useDelta, prevPub)
	}
	return b.h.HandlePublication(ch, pub, sp, useDelta, prevPub)
}

func (b *vfC16MapBroker) HandleJoin(ch string, info *ClientInfo) error  { return b.h.HandleJoin(ch, info) }
func (b *vfC16MapBroker) HandleLeave(ch string, info *ClientInfo) error { return b.h.HandleLeave(ch, info) }

func (b *vfC16MapBroker) Subscribe(chs ...string) error {
	err := b.MapBroker.Subscribe(chs...)
	if b.hook != nil {
		b.hook("subscribe_after")
	}
	return err
}

func (b *vfC16MapBroker) ReadStream(ctx context.Context, ch string, opts MapReadStreamOptions) (MapStreamResult, error) {
	// the live transition reads with limit = LiveTransitionMaxPublicationLimit+1 (1001 here); pages use the page size
	transition := opts.Filter.Limit > 100 && opts.Filter.Since != nil
	if transition && b.hook != nil {
		b.hook("transition_read_before")
	}
	r, err := b.MapBroker.ReadStream(ctx, ch, opts)
	if transition && b.hook != nil {
		b.hook("transition_read_after")
	}
	return r, err
}

func vfC16GenWriter(rt *rapid.T, l string, allowFault bool) vfC16Step {
	s := vfC16Step{Kind: 0}
	s.Key = rapid.IntRange(0, 4).Draw(rt, l+"key")
	s.Remove = rapid.IntRange(0, 5).Draw(rt, l+"rm") == 0
	s.Tags = vfTagsGen(rt, l+"tags")
	if s.Remove && rapid.Bool().Draw(rt, l+"rmInherit") {
		s.Tags = nil // removal inherits the stored tags of the entry
	}
	if allowFault {
		s.Fault = rapid.SampledFrom([]int{0, 0, 0, 0, 0, 0, 0, 0, 0, 0, 0, 1, 2}).Draw(rt, l+"fault")
	}
	return s
}

func vfC16GenMap(rt *rapid.T) vfC16Case {
	c := vfC16Case{Kind: 1}
	c.MapMode = rapid.SampledFrom([]int{1, 1, 2, 2, 2, 3, 3}).Draw(rt, "mapmode")
	c.StreamSz = rapid.SampledFrom([]int{6, 100, 100}).Draw(rt, "streamsz")
	ns := rapid.IntRange(1, 2).Draw(rt, "nsubs")
	for i := 0; i < ns; i++ {
		sub := vfC16GenSub(rt, i, false)
		sub.SrvRefresh = rapid.IntRange(0, 3).Draw(rt, "srvRefresh") == 0
		c.Subs = append(c.Subs, sub)
	}
	np := rapid.IntRange(0, 7).Draw(rt, "npre")
	for i := 0; i < np; i++ {
		c.PreTags = append(c.PreTags, vfTagsGen(rt, "pre"))
		c.PreKeys = append(c.PreKeys, rapid.IntRange(0, 4).Draw(rt, "prekey"))
	}
	n := rapid.IntRange(3, 14).Draw(rt, "nsteps")
	for i := 0; i < n; i++ {
		k := rapid.SampledFrom([]int{0, 0, 0, 0, 0, 1, 1, 1, 2, 3}).Draw(rt, "kind")
		if i < ns {
			k = 1
		}
		var s vfC16Step
		switch k {
		case 0:
			s = vfC16GenWriter(rt, "w", true)
		case 1:
			s = vfC16Step{Kind: 1, Conn: rapid.IntRange(0, ns-1).Draw(rt, "conn")}
			if i < ns {
				s.Conn = i
			}
			s.Join = rapid.SampledFrom([]int{0, 0, 0, 1, 1, 2, 2}).Draw(rt, "join")
			if i < ns {
				s.Join = 0
			}
			s.Limit = rapid.SampledFrom([]int{1, 1, 2, 3, 100}).Draw(rt, "limit")
			s.OffPick = rapid.SampledFrom([]int{-1, -1, 0, 1, 2, 3, 5}).Draw(rt, "offPick")
			nb := rapid.IntRange(0, 4).Draw(rt, "nbetween")
			for j := 0; j < nb; j++ {
				var ops []vfC16Step
				no := rapid.IntRange(0, 3).Draw(rt, "nbops")
				for q := 0; q < no; q++ {
					ops = append(ops, vfC16GenWriter(rt, "b", false))
				}
				s.Between = append(s.Between, ops)
			}
			s.GateAt = rapid.SampledFrom([]int{0, 0, 1, 2, 3}).Draw(rt, "gateAt")
			if c.MapMode == 1 && s.GateAt != 0 {
				s.GateAt = 3
			}
			if s.GateAt != 0 {
				nd := rapid.IntRange(1, 4).Draw(rt, "nduring")
				for q := 0; q < nd; q++ {
					op := vfC16GenWriter(rt, "d", false)
					s.During = append(s.During, op)
				}
			}
		case 2:
			s = vfC16Step{Kind: 2, Conn: rapid.IntRange(0, ns-1).Draw(rt, "conn")}
		default:
			s = vfC16Step{Kind: 3, Conn: rapid.IntRange(0, ns-1).Draw(rt, "conn"), NewTF: vfTFGen(rt, "ntf", 1)}
		}
		c.Steps = append(c.Steps, s)
	}
	return c
}

func vfC16RunMap(t *testing.T, cs vfC16Case, out *vfC16Out, isKnown func(string) bool) string {
	return vfBubble(t, func() string {
		ch := "m"
		ctx := context.Background()
		mode := MapMode(cs.MapMode)
		cfg := Config{ClientPresenceUpdateInterval: time.Second, ClientExpiredSubCloseDelay: time.Second}
		cfg.Map.GetMapChannelOptions = func(string) MapChannelOptions {
			o := MapChannelOptions{Mode: mode, MinPageSize: 1, DefaultPageSize: 2, MaxPageSize: 1000}
			if mode.HasExpiry() {
				o.KeyTTL = 10 * time.Minute
			}
			if mode.HasStream() {
				o.StreamSize = cs.StreamSz
				o.StreamTTL = 10 * time.Minute
			}
			return o
		}
		var proxy *vfC16MapBroker
		w, err := vfNewWorld(cfg, func(w *vfWorld) {
			mb, err := NewMemoryMapBroker(w.node, MemoryMapBrokerConfig{})
			if err != nil {
				panic(err)
			}
			proxy = &vfC16MapBroker{MapBroker: mb}
			w.node.SetMapBroker(proxy)
		})
		if err != nil {
			return "infra: " + err.Error()
		}
		defer w.Close()
		time.Sleep(500 * time.Millisecond)
		nextFault := 0
		proxy.fault = func() int { return nextFault }
		gatePoint := ""
		proxy.hook = func(point string) {
			if point == gatePoint {
				w.Gates.Pass("maptransition")
			}
		}

		subjects := make([]*vfC16Subject, len(cs.Subs))
		byName := map[string]*vfC16Subject{}
		for i, sc := range cs.Subs {
			subjects[i] = &vfC16Subject{idx: i, cfg: sc, serverTF: sc.ServerTF, cmdCh: map[uint32]string{}, adm: map[string]int{}, exc: map[string]int{}}
		}
		farFuture := func() int64 { return time.Now().Unix() + 3600 }
		w.OnSubscribe = func(c *vfConn, e SubscribeEvent, cb SubscribeCallback) {
			s := byName[c.Name]
			if s == nil {
				cb(SubscribeReply{}, ErrorPermissionDenied)
				return
			}
			if s.cfg.SrvRefresh {
				cb(SubscribeReply{Options: SubscribeOptions{Type: e.Type, AllowTagsFilter: true,
					ServerTagsFilter: s.serverTF.Proto(), ExpireAt: time.Now().Unix() + 2}}, nil)
				return
			}
			cb(SubscribeReply{ClientSideRefresh: true, Options: SubscribeOptions{Type: e.Type, AllowTagsFilter: true,
				ServerTagsFilter: s.serverTF.Proto(), ExpireAt: farFuture()}}, nil)
		}
		w.PerClient = func(c *vfConn, client *Client) {
			s := byName[c.Name]
			client.OnSubRefresh(func(e SubRefreshEvent, cb SubRefreshCallback) {
				if s != nil && !e.ClientSideRefresh {
					s.srvRefreshCalls++
				}
				if s == nil || s.newTF == nil {
					cb(SubRefreshReply{ExpireAt: farFuture()}, nil)
					return
				}
				cb(SubRefreshReply{ExpireAt: farFuture(), ServerTagsFilter: s.newTF.Proto()}, nil)
			})
		}

		// ---- write log -------------------------------------------------------------------------------------------
		log := make([]vfC16Rec, 0, 256)
		byID := map[int]*vfC16Rec{}
		byOff := map[uint64]*vfC16Rec{}
		lastRemoval := map[string]*vfC16Rec{}
		stored := map[string]map[string]string{} // key -> stored tags (entry exists)
		exists := map[string]bool{}
		var top uint64
		curEpoch := ""
		faults := 0
		hsStart := 0
		judgeAll := func() string { return "" }
		write := func(op vfC16Step) string {
			if len(log) == cap(log) {
				return ""
			}
			key := fmt.Sprintf("k%d", op.Key)
			rec := vfC16Rec{Key: key, Fault: op.Fault}
			if op.Remove {
				if !exists[key] {
					return ""
				}
				rec.Removed = true
				rec.Tags = stored[key]
				if op.Tags != nil {
					rec.Tags = op.Tags
				}
				nextFault = op.Fault
				res, err := w.node.MapRemove(ctx, ch, key, MapRemoveOptions{Tags: op.Tags})
				nextFault = 0
				if err != nil {
					return "infra: MapRemove error: " + err.Error()
				}
				if res.Suppressed {
					return "infra: MapRemove of an existing key suppressed: " + string(res.SuppressReason)
				}
				rec.Offset = res.Position.Offset
				if res.Position.Epoch != "" {
					curEpoch = res.Position.Epoch
				}
				delete(exists, key)
				delete(stored, key)
			} else {
				rec.ID = len(log) + 1
				rec.Tags = op.Tags
				data := []byte(fmt.Sprintf(`{"id":%d}`, rec.ID))
				nextFault = op.Fault
				res, err := w.node.MapPublish(ctx, ch, key, MapPublishOptions{Data: data, Tags: op.Tags})
				nextFault = 0
				if err != nil {
					return "infra: MapPublish error: " + err.Error()
				}
				if res.Suppressed {
					return "infra: MapPublish suppressed: " + string(res.SuppressReason)
				}
				rec.Offset = res.Position.Offset
				if res.Position.Epoch != "" {
					curEpoch = res.Position.Epoch
				}
				exists[key] = true
				stored[key] = op.Tags
			}
			if op.Fault != 0 {
				faults++
			}
			log = append(log, rec)
			r := &log[len(log)-1]
			if r.ID != 0 {
				byID[r.ID] = r
			}
			if mode.HasStream() {
				byOff[r.Offset] = r
				top = r.Offset
			}
			if r.Removed {
				lastRemoval[key] = r
			}
			vfSettle()
			if op.Fault != 1 {
				for _, s := range subjects {
					if s.subscribed {
						s.count("map_live", r.Tags)
					}
				}
			}
			return judgeAll()
		}
		for i, tg := range cs.PreTags {
			if m := write(vfC16Step{Key: cs.PreKeys[i], Tags: tg}); m != "" {
				return m
			}
		}

		// ---- frames: oracle + state tracking ---------------------------------------------------------------------
		lookup := func(p *protocol.Publication) (*vfC16Rec, string) {
			if p.Removed {
				if p.Offset > 0 && mode.HasStream() {
					r := byOff[p.Offset]
					if r == nil || !r.Removed || r.Key != p.Key {
						return nil, fmt.Sprintf("removal of key %s at offset %d matches no removal the harness performed", p.Key, p.Offset)
					}
					return r, ""
				}
				r := lastRemoval[p.Key]
				if r == nil {
					return nil, fmt.Sprintf("removal of key %s that was never removed", p.Key)
				}
				return r, ""
			}
			id, ok := vfC16PayloadID(p.Data)
			if !ok {
				return nil, fmt.Sprintf("publication payload %q carries no id", p.Data)
			}
			r := byID[id]
			if r == nil {
				return nil, fmt.Sprintf("publication id %d was never published", id)
			}
			if r.Key != p.Key {
				return nil, fmt.Sprintf("publication id %d was published under key %s but arrived with key %s", id, r.Key, p.Key)
			}
			return r, ""
		}
		judge := func(s *vfC16Subject) string {
			if s.conn == nil {
				return ""
			}
			frames := s.conn.Frames()
			for fi := s.seen; fi < len(frames); fi++ {
				f := frames[fi]
				if f.Err != nil {
					return fmt.Sprintf("s%d frame %d undecodable: %v", s.idx, fi, f.Err)
				}
				r := f.Reply
				if r.Unsubscribe != nil {
					s.subscribed = false
				}
				if r.Push != nil && r.Push.Channel == ch && r.Push.Unsubscribe != nil {
					s.subscribed = false
				}
				if r.Push != nil && r.Push.Disconnect != nil {
					s.subscribed, s.pending, s.dead = false, false, true
				}
				for _, sp := range vfC16FramePubs(f, ch, s.cmdCh) {
					rec, m := lookup(sp.Pub)
					if rec == nil {
						return fmt.Sprintf("s%d frame %d (%s): %s; frames: %s", s.idx, fi, sp.Where, m, vfC16RenderMap(frames))
					}
					if !s.admits(rec.Tags) {
						what := fmt.Sprintf("publication id=%d", rec.ID)
						if rec.Removed {
							what = "removal"
						}
						return fmt.Sprintf("s%d received %s of key %s (offset %d, tags %s) in %s (phase %d) although its filters exclude it (server filter %s, client filter %s); frames: %s",
							s.idx, what, rec.Key, sp.Pub.Offset, vfTagsStr(rec.Tags), sp.Where, sp.Phase, s.serverTF, s.clientTF(), vfC16RenderMap(frames))
					}
					out.label("admitted_publication_delivered")
					if sp.Phase == -1 && sp.Pub.Offset > 0 && mode.HasStream() && s.subscribed {
						s.posOff = sp.Pub.Offset
					}
				}
			}
			s.seen = len(frames)
			if closed, _ := s.conn.T.Closed(); closed {
				s.subscribed, s.pending, s.dead = false, false, true
			}
			return ""
		}
		judgeAll = func() string {
			for _, s := range subjects {
				if m := judge(s); m != "" {
					return m
				}
			}
			return ""
		}
		newConn := func(s *vfC16Subject) {
			s.connN++
			name := fmt.Sprintf("s%d.%d", s.idx, s.connN)
			s.conn = w.NewConn(vfConnCfg{Name: name, User: "u", Proto: s.cfg.Proto})
			s.seen, s.dead, s.subscribed, s.pending = 0, false, false, false
			s.cmdCh = map[uint32]string{}
			byName[name] = s
			s.conn.Connect(nil)
		}
		parked := func() bool { return w.Gates.Waiting("maptransition") > 0 }
		releaseGate := func() {
			gatePoint = ""
			w.Gates.Disarm("maptransition")
			for w.Gates.Release("maptransition") {
			}
			vfSettle()
		}
		// send issues one subscribe request; when the live transition parks at the armed gate the `during` writer
		// operations run before it is released. Returns the reply frame.
		send := func(s *vfC16Subject, req *protocol.SubscribeRequest, during []vfC16Step) (*protocol.Reply, string) {
			id := s.conn.NextID()
			s.cmdCh[id] = ch
			conn := s.conn
			go conn.Cmd(&protocol.Command{Id: id, Subscribe: req})
			vfSettle()
			if parked() {
				out.label("live_transition_parked_" + gatePoint)
				for _, op := range during {
					if m := write(op); m != "" {
						return nil, m
					}
				}
				releaseGate()
			}
			for _, f := range conn.Frames() {
				if f.Reply != nil && f.Reply.Id == id {
					return f.Reply, ""
				}
			}
			return nil, ""
		}
		countRange := func(s *vfC16Subject, path string, lo, hi uint64, from int) {
			seen := map[*vfC16Rec]bool{}
			for i := range log {
				r := &log[i]
				if (r.Offset > lo && r.Offset <= hi && mode.HasStream()) || (from >= 0 && i >= from) {
					if !seen[r] {
						seen[r] = true
						s.count(path, r.Tags)
					}
				}
			}
		}
		handshake := func(s *vfC16Subject, st vfC16Step) string {
			if s.conn == nil || s.dead {
				newConn(s)
			}
			hsStart = len(log)
			tf := s.cfg.ClientTF.Proto()
			join := st.Join
			if !mode.HasStream() || !s.hasPos {
				join = 0
			}
			var off uint64
			if join != 0 {
				off = s.posOff
				if st.OffPick >= 0 {
					off = uint64(st.OffPick) % (s.posOff + 1)
				}
			}
			var req *protocol.SubscribeRequest
			switch join {
			case 0:
				req = &protocol.SubscribeRequest{Channel: ch, Type: int32(SubscriptionTypeMap), Phase: MapPhaseState, Limit: int32(st.Limit), Tf: tf}
			case 1:
				req = &protocol.SubscribeRequest{Channel: ch, Type: int32(SubscriptionTypeMap), Phase: MapPhaseStream, Limit: int32(st.Limit), Tf: tf,
					Recover: true, Offset: off, Epoch: s.posEpoch}
			default:
				req = &protocol.SubscribeRequest{Channel: ch, Type: int32(SubscriptionTypeMap), Phase: MapPhaseLive, Tf: tf,
					Recover: true, Offset: off, Epoch: s.posEpoch}
			}
			out.label(fmt.Sprintf("map_join_kind_%d", join))
			if st.GateAt != 0 {
				gatePoint = []string{"", "transition_read_before", "transition_read_after", "subscribe_after"}[st.GateAt]
				w.Gates.Arm("maptransition", 1)
			}
			defer releaseGate()
			statePages := 0
			for round := 0; round < 14; round++ {
				rep, m := send(s, req, st.During)
				if m != "" {
					return m
				}
				if m := judgeAll(); m != "" {
					return m
				}
				if rep == nil {
					return "" // connection closed / no reply: the handshake ended
				}
				if rep.Error != nil || rep.Subscribe == nil {
					out.label(fmt.Sprintf("map_handshake_error_%d", rep.Error.GetCode()))
					return ""
				}
				res := rep.Subscribe
				// candidates of the path this reply belongs to
				switch {
				case res.Phase == MapPhaseState:
					statePages++
					if statePages == 1 {
						for _, k := range vfC16SortedKeys(stored) {
							s.count("map_state_pages", stored[k])
						}
					}
				case res.Phase == MapPhaseStream:
					countRange(s, "map_stream_pages", req.Offset, res.Offset, -1)
				default:
					path := []string{"map_recovery_join", "map_stream_to_live", "map_state_to_live"}[req.Phase]
					if req.Phase == MapPhaseState {
						if statePages == 0 {
							for _, k := range vfC16SortedKeys(stored) {
								s.count("map_state_to_live_state", stored[k])
							}
						}
						if mode.HasStream() {
							countRange(s, path, 1<<62, 0, hsStart)
						} else {
							countRange(s, "map_streamless_during_transition", 1<<62, 0, hsStart)
						}
					} else {
						countRange(s, path, req.Offset, res.Offset, hsStart)
					}
				}
				if res.Phase == MapPhaseLive {
					s.subscribed = true
					s.hasPos = mode.HasStream()
					s.posOff, s.posEpoch = res.Offset, res.Epoch
					out.label("map_live_reached")
					return ""
				}
				if round < len(st.Between) {
					for _, op := range st.Between[round] {
						if m := write(op); m != "" {
							return m
						}
					}
					if len(st.Between[round]) > 0 {
						out.label("writer_between_page_requests")
					}
				}
				next := &protocol.SubscribeRequest{Channel: ch, Type: int32(SubscriptionTypeMap), Limit: int32(st.Limit), Offset: res.Offset, Epoch: res.Epoch}
				if !s.cfg.TFOnce {
					next.Tf = tf
				}
				if res.Phase == MapPhaseState && res.Cursor != "" {
					next.Phase, next.Cursor = MapPhaseState, res.Cursor
				} else {
					next.Phase = MapPhaseStream
				}
				req = next
			}
			out.label("map_handshake_not_finished_in_14_rounds")
			return ""
		}

		for si, st := range cs.Steps {
			switch st.Kind {
			case 0:
				if m := write(st); m != "" {
					return fmt.Sprintf("step %d (%s): %s", si, st.str(1), m)
				}
			case 1:
				s := subjects[st.Conn]
				if s.subscribed && (st.Join == 0 || !mode.HasStream()) {
					continue
				}
				if s.subscribed {
					out.label("map_resubscribe_with_recovery")
				}
				// (re)subscribe: a real SDK unsubscribes first (also clears the reservation of an abandoned handshake)
				if s.conn != nil && !s.dead {
					s.conn.Cmd(&protocol.Command{Id: s.conn.NextID(), Unsubscribe: &protocol.UnsubscribeRequest{Channel: ch}})
					vfSettle()
					if m := judge(s); m != "" {
						return fmt.Sprintf("step %d (%s): %s", si, st.str(1), m)
					}
				}
				if m := handshake(s, st); m != "" {
					return fmt.Sprintf("step %d (%s): %s", si, st.str(1), m)
				}
			case 2:
				s := subjects[st.Conn]
				if !s.subscribed || s.conn == nil || s.dead {
					continue
				}
				s.conn.Cmd(&protocol.Command{Id: s.conn.NextID(), Unsubscribe: &protocol.UnsubscribeRequest{Channel: ch}})
				vfSettle()
			case 3:
				s := subjects[st.Conn]
				if !s.subscribed || s.conn == nil || s.dead {
					continue
				}
				s.newTF = st.NewTF
				before := len(s.conn.Frames())
				if s.cfg.SrvRefresh {
					// server-side refresh: the subscription's ExpireAt (subscribe time + 2 s) passes, the periodic tick asks
					// the OnSubRefresh handler, which extends the subscription and returns the changed filter
					calls := s.srvRefreshCalls
					time.Sleep(8 * time.Second)
					vfSettle()
					if m := judgeAll(); m != "" {
						return fmt.Sprintf("step %d (%s): %s", si, st.str(1), m)
					}
					invalidated := false
					for _, f := range s.conn.Frames()[before:] {
						if p := f.Reply.Push; p != nil && p.Channel == ch && p.Unsubscribe != nil && p.Unsubscribe.Code == UnsubscribeCodeStateInvalidated {
							invalidated = true
						}
					}
					if s.srvRefreshCalls == calls || (!s.subscribed && !invalidated) {
						out.label("map_server_side_refresh_not_due")
						s.newTF = nil
						continue
					}
					if vfC16SemDiff(s.serverTF, st.NewTF) && !invalidated {
						key := "C16:server-side-sub-refresh-ignores-changed-server-tags-filter"
						msg := fmt.Sprintf("the server-side sub refresh (subscription expired, OnSubRefresh handler called with ClientSideRefresh=false) returned a changed ServerTagsFilter (%s -> %s) for a map subscription but the subscription was not ended with unsubscribe code %d; frames: %s",
							s.serverTF, st.NewTF, UnsubscribeCodeStateInvalidated, vfC16RenderMap(s.conn.Frames()))
						if !isKnown(key) {
							return fmt.Sprintf("step %d (%s): [%s] %s", si, st.str(1), key, msg)
						}
						out.known = append(out.known, key)
						out.knownEx = msg
						// the library keeps enforcing the old filter: keep judging with it
					} else if invalidated {
						out.label("map_server_side_refresh_invalidated_subscription")
						s.serverTF = st.NewTF
					}
					s.newTF = nil
					continue
				}
				id := s.conn.NextID()
				s.conn.Cmd(&protocol.Command{Id: id, SubRefresh: &protocol.SubRefreshRequest{Channel: ch, Token: "tok"}})
				vfSettle()
				replied, invalidated, refused := false, false, false
				for _, f := range s.conn.Frames()[before:] {
					if f.Reply == nil {
						continue
					}
					if f.Reply.Id == id && f.Reply.SubRefresh != nil && f.Reply.Error == nil {
						replied = true
					}
					if f.Reply.Id == id && f.Reply.Error != nil {
						refused = true
					}
					if p := f.Reply.Push; p != nil && p.Channel == ch && p.Unsubscribe != nil && p.Unsubscribe.Code == UnsubscribeCodeStateInvalidated {
						invalidated = true
					}
					if p := f.Reply.Push; p != nil && p.Disconnect != nil {
						refused = true
					}
				}
				changed := vfC16SemDiff(s.serverTF, st.NewTF)
				switch {
				case refused:
					// The subscription lost its client-side-refresh flag (paginated handshake: continuation requests rebuild
					// SubscribeReply from the stored options without ClientSideRefresh) - the refresh never reached the handler.
					out.label("map_sub_refresh_refused")
				case changed && !invalidated:
					return fmt.Sprintf("step %d (%s): the sub refresh changed the server tags filter of a map subscription from %s to %s but the subscription was not ended with unsubscribe code %d (sub refresh answered: %v); frames: %s",
						si, st.str(1), s.serverTF, st.NewTF, UnsubscribeCodeStateInvalidated, replied, vfC16RenderMap(s.conn.Frames()))
				default:
					if invalidated {
						out.label("map_sub_refresh_invalidated_subscription")
						if changed {
							out.nontrivial = true
						}
					} else {
						out.label("map_sub_refresh_semantically_same_filter")
					}
					s.serverTF = st.NewTF
				}
			}
			if m := judgeAll(); m != "" {
				return fmt.Sprintf("after step %d (%s): %s", si, st.str(1), m)
			}
		}
		time.Sleep(time.Second)
		vfSettle()
		if m := judgeAll(); m != "" {
			return "at the end: " + m
		}
		for _, s := range subjects {
			paths := []string{}
			for p := range s.adm {
				paths = append(paths, p)
			}
			sort.Strings(paths)
			for _, p := range paths {
				if s.adm[p] > 0 && s.exc[p] > 0 {
					out.nontrivial = true
					out.label("nontrivial_path_" + p)
				}
			}
		}
		if faults > 0 {
			out.label("pubsub_fault_injected")
		}
		out.label(fmt.Sprintf("kind_map_mode%d", cs.MapMode))
		_, _ = curEpoch, top
		return ""
	})
}

func vfC16SortedKeys(m map[string]map[string]string) []string {
	ks := make([]string, 0, len(m))
	for k := range m {
		ks = append(ks, k)
	}
	sort.Strings(ks)
	return ks
}

// vfC16RenderMap renders frames with map-specific detail (phase, state/publication keys).
func vfC16RenderMap(fs []vfFrame) string {
	parts := make([]string, 0, len(fs))
	pubs := func(ps []*protocol.Publication) string {
		x := make([]string, len(ps))
		for i, p := range ps {
			rm := ""
			if p.Removed {
				rm = " removed"
			}
			x[i] = fmt.Sprintf("%s@%d%s %s", p.Key, p.Offset, rm, p.Data)
		}
		return "[" + strings.Join(x, ", ") + "]"
	}
	for _, f := range fs {
		r := f.Reply
		switch {
		case r == nil:
			parts = append(parts, "<undecodable>")
		case r.Subscribe != nil:
			parts = append(parts, fmt.Sprintf("#%d subscribe{phase=%d off=%d cursor=%q recovered=%v state=%s pubs=%s}", r.Id, r.Subscribe.Phase, r.Subscribe.Offset,
				r.Subscribe.Cursor, r.Subscribe.Recovered, pubs(r.Subscribe.State), pubs(r.Subscribe.Publications)))
		case r.Push != nil && r.Push.Pub != nil:
			parts = append(parts, "push.pub"+pubs([]*protocol.Publication{r.Push.Pub}))
		default:
			parts = append(parts, vfRenderReply(r))
		}
	}
	return strings.Join(parts, " | ")
}

func TestVF_C16(t *testing.T) {
	vfCheck(t, "C16", func(rt *rapid.T, c *vfCase) string {
		var cs vfC16Case
		isMap := rapid.IntRange(0, 9).Draw(rt, "caseKind") >= 4
		if isMap {
			cs = vfC16GenMap(rt)
		} else {
			cs = vfC16GenStream(rt)
		}
		c.Describe(cs.String())
		out := &vfC16Out{}
		var msg string
		if isMap {
			msg = vfC16RunMap(t, cs, out, c.IsKnown)
		} else {
			msg = vfC16RunStream(t, cs, out, c.IsKnown)
		}
		seen := map[string]bool{}
		for _, l := range out.labels {
			if !seen[l] {
				seen[l] = true
				c.Label(l)
			}
		}
		for _, k := range out.known {
			c.Known(k, out.knownEx)
		}
		if out.nontrivial {
			c.Nontrivial(c.desc)
		}
		return msg
	})
}
