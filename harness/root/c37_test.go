package PKGNAME

// C37 — Connection limits are enforced.
// One subject connection under a small ClientChannelLimit / ChannelMaxLength / ClientQueueMaxSize. A drawn script of
// client subscribes (regular and map; OnSubscribe answered synchronously or parked and completed later in a drawn
// order from another goroutine), server-side Client.Subscribe, connect-time subscriptions, unsubscribes, and "bursts"
// of outgoing messages against a gated transport. After every step the number of channels the connection holds
// (c.channels + c.mapSubscribing) is read directly and compared with the limit; every attempt's outcome is compared
// with what the held count at the time of the attempt demands.

import (
	"context"
	"fmt"
	"sort"
	"strings"
	"testing"
	"time"
	"unicode/utf8"

	"github.com/centrifugal/protocol"
	"pgregory.net/rapid"
)

type vfC37Item struct {
	Pub  bool // publication through the hub (else Client.Send)
	Size int  // payload size
}

type vfC37Step struct {
	Kind  int // 0 client subscribe, 1 complete parked callback, 2 server-side subscribe, 3 client unsubscribe, 4 server-side unsubscribe, 5 burst, 6 next page of a paginating map subscribe
	Ch    int
	Map   bool
	Async bool
	Live  bool // map subscribe: direct-to-live join instead of state pagination
	Idx   int
	Err   bool
	Items []vfC37Item
	Delta int // burst: final pending bytes target = queue max + Delta (0 = no boundary item)
	Final bool
}

type vfC37Chan struct {
	Len  int
	MB   bool
	Keys int // entries in the channel's map state (a map subscribe pages through them)
}

type vfC37Case struct {
	Limit       int
	MaxLen      int
	QueueMax    int
	Proto       ProtocolType
	Chans       []vfC37Chan
	ConnectSubs int
	Page        int // page size of map subscribes
	Batch       int // 0 = no per-channel batching; else ChannelBatchConfig.MaxSize (publications reach the writer through enqueueMany)
	Steps       []vfC37Step
	FinalOrder  []int
}

func vfC37ChanName(i int, c vfC37Chan) string {
	var sb strings.Builder
	sb.WriteByte(byte('a' + i))
	n := c.Len
	if n < 1 {
		n = 1
	}
	for sb.Len() < n {
		if c.MB && sb.Len()+2 <= n {
			sb.WriteString("é")
		} else {
			sb.WriteByte('x')
		}
	}
	return sb.String()
}

func (c vfC37Case) names() []string {
	out := make([]string, len(c.Chans))
	for i, ch := range c.Chans {
		out[i] = vfC37ChanName(i, ch)
	}
	return out
}

func (s vfC37Step) String() string {
	switch s.Kind {
	case 0:
		return fmt.Sprintf("sub(ch%d map=%v live=%v async=%v)", s.Ch, s.Map, s.Live, s.Async)
	case 1:
		return fmt.Sprintf("complete(%d err=%v)", s.Idx, s.Err)
	case 2:
		return fmt.Sprintf("serverSub(ch%d)", s.Ch)
	case 3:
		return fmt.Sprintf("unsub(ch%d)", s.Ch)
	case 4:
		return fmt.Sprintf("serverUnsub(ch%d)", s.Ch)
	case 6:
		return fmt.Sprintf("page(%d)", s.Idx)
	}
	it := make([]string, len(s.Items))
	for i, x := range s.Items {
		k := "send"
		if x.Pub {
			k = "pub"
		}
		it[i] = fmt.Sprintf("%s:%d", k, x.Size)
	}
	return fmt.Sprintf("burst([%s] final=%v delta=%d)", strings.Join(it, " "), s.Final, s.Delta)
}

func (c vfC37Case) String() string {
	st := make([]string, len(c.Steps))
	for i, s := range c.Steps {
		st[i] = s.String()
	}
	keys := make([]int, len(c.Chans))
	for i, ch := range c.Chans {
		keys[i] = ch.Keys
	}
	return fmt.Sprintf("limit=%d maxLen=%d queueMax=%d batch=%d proto=%s chans=%q keys=%v page=%d connectSubs=%d steps=[%s] finalOrder=%v", c.Limit, c.MaxLen, c.QueueMax, c.Batch,
		c.Proto, c.names(), keys, c.Page, c.ConnectSubs, strings.Join(st, " "), c.FinalOrder)
}

func vfC37Gen(rt *rapid.T) vfC37Case {
	c := vfC37Case{}
	c.Limit = rapid.IntRange(1, 4).Draw(rt, "limit")
	c.MaxLen = rapid.IntRange(1, 16).Draw(rt, "maxLen")
	c.QueueMax = rapid.SampledFrom([]int{300, 400, 512, 700, 1000, 1500}).Draw(rt, "queueMax")
	c.Batch = rapid.SampledFrom([]int{0, 3, 0, 4}).Draw(rt, "batch")
	if c.Batch > 0 && c.QueueMax < 700 {
		c.QueueMax = 700 // one calibration batch written through an idle queue must stay well below the maximum
	}
	c.Proto = rapid.SampledFrom([]ProtocolType{ProtocolTypeJSON, ProtocolTypeProtobuf}).Draw(rt, "proto")
	c.Page = rapid.SampledFrom([]int{1, 2}).Draw(rt, "page")
	nch := c.Limit + 3
	for i := 0; i < nch; i++ {
		d := rapid.SampledFrom([]int{-2, -1, -1, 0, 0, 0, 0, 1, 2}).Draw(rt, "lenDelta")
		mb := rapid.IntRange(0, 3).Draw(rt, "mb") == 0
		keys := rapid.SampledFrom([]int{3, 0, 2, 5, 1, 4}).Draw(rt, "keys")
		c.Chans = append(c.Chans, vfC37Chan{Len: c.MaxLen + d, MB: mb, Keys: keys})
	}
	switch rapid.IntRange(0, 11).Draw(rt, "connectKind") {
	case 0:
		c.ConnectSubs = c.Limit + 1 // over the limit: the connect itself must be refused
	case 1, 2:
		c.ConnectSubs = c.Limit
	case 3, 4, 5:
		c.ConnectSubs = rapid.IntRange(0, c.Limit).Draw(rt, "connectSubs")
	}
	n := rapid.IntRange(2, 16).Draw(rt, "nsteps")
	for i := 0; i < n; i++ {
		k := rapid.SampledFrom([]int{0, 0, 0, 6, 0, 0, 1, 0, 1, 2, 1, 2, 3, 4, 5, 5, 6}).Draw(rt, "kind")
		if i < c.Limit && rapid.IntRange(0, 3).Draw(rt, "frontload") != 0 {
			k = 0 // fill the slots first so that later attempts meet a full connection with subscribes in flight
		}
		s := vfC37Step{Kind: k}
		switch k {
		case 0:
			s.Ch = rapid.IntRange(0, nch-1).Draw(rt, "ch")
			s.Map = rapid.SampledFrom([]bool{false, true, false}).Draw(rt, "map")
			s.Live = s.Map && rapid.SampledFrom([]bool{false, false, true}).Draw(rt, "live")
			s.Async = rapid.IntRange(0, 3).Draw(rt, "async") != 0
		case 6:
			s.Idx = rapid.IntRange(0, 3).Draw(rt, "pidx")
		case 1:
			s.Idx = rapid.IntRange(0, 5).Draw(rt, "idx")
			s.Err = rapid.IntRange(0, 3).Draw(rt, "err") == 0
		case 2, 3, 4:
			s.Ch = rapid.IntRange(0, nch-1).Draw(rt, "ch")
		case 5:
			ni := rapid.IntRange(1, 6).Draw(rt, "nitems")
			for j := 0; j < ni; j++ {
				s.Items = append(s.Items, vfC37Item{Pub: rapid.Bool().Draw(rt, "pub"), Size: rapid.IntRange(2, c.QueueMax/4).Draw(rt, "size")})
			}
			s.Final = rapid.IntRange(0, 4).Draw(rt, "final") != 0
			s.Delta = rapid.SampledFrom([]int{-60, -20, -2, -1, 0, 0, 1, 1, 2, 3, 20, 60}).Draw(rt, "delta")
		}
		c.Steps = append(c.Steps, s)
	}
	for i := 0; i < 8; i++ {
		c.FinalOrder = append(c.FinalOrder, rapid.IntRange(0, 7).Draw(rt, "final"))
	}
	return c
}

type vfC37Out struct {
	labels     []string
	nontrivial bool
	known      []string
	knownEx    string
}

type vfC37Parked struct {
	ch  string
	id  uint32
	mp  bool
	typ SubscriptionType
	cb  SubscribeCallback
}

func vfC37Run(t *testing.T, cs vfC37Case, out *vfC37Out, isKnown func(string) bool) string {
	return vfBubble(t, func() string {
		names := cs.names()
		cfg := Config{ClientChannelLimit: cs.Limit, ChannelMaxLength: cs.MaxLen, ClientQueueMaxSize: cs.QueueMax,
			Map: MapConfig{GetMapChannelOptions: func(string) MapChannelOptions {
				return MapChannelOptions{Mode: MapModeEphemeral, KeyTTL: time.Hour, MinPageSize: 1, DefaultPageSize: 2}
			}}}
		if cs.Batch > 0 {
			cfg.GetChannelBatchConfig = func(string) ChannelBatchConfig { return ChannelBatchConfig{MaxSize: int64(cs.Batch)} }
		}
		w, err := vfNewWorld(cfg, nil)
		if err != nil {
			return "infra: " + err.Error()
		}
		defer w.Close()
		label := func(l string) { out.labels = append(out.labels, l) }

		var connectChans []string
		for i := 0; i < cs.ConnectSubs && i < len(names); i++ {
			connectChans = append(connectChans, names[i])
		}
		w.Connecting = func(c *vfConn, e ConnectEvent) (ConnectReply, error) {
			r := ConnectReply{Credentials: &Credentials{UserID: c.User}}
			if c.Name == "s" && len(connectChans) > 0 {
				r.Subscriptions = map[string]SubscribeOptions{}
				for _, ch := range connectChans {
					r.Subscriptions[ch] = SubscribeOptions{}
				}
			}
			return r, nil
		}
		var parked []*vfC37Parked
		// Whatever way the case ends, no subscribe may stay in flight when the node shuts down: close() waits 5 s (virtual)
		// per in-flight reservation holding connectMu while timed-out waits spawn further close() calls that block on
		// that mutex - a synctest bubble cannot wait that out. Complete them all together before anything waits.
		defer func() {
			var dones []chan struct{}
			for _, p := range parked {
				done := make(chan struct{})
				dones = append(dones, done)
				go func() {
					defer close(done)
					p.cb(SubscribeReply{Options: SubscribeOptions{Type: p.typ}}, nil)
				}()
			}
			parked = nil
			for _, d := range dones {
				<-d
			}
			vfSettle()
		}()
		nextAsync := false
		var curID uint32
		handlerCalls := 0
		w.OnSubscribe = func(c *vfConn, e SubscribeEvent, cb SubscribeCallback) {
			handlerCalls++
			if nextAsync {
				parked = append(parked, &vfC37Parked{ch: e.Channel, id: curID, mp: e.Type != 0, typ: e.Type, cb: cb})
				return
			}
			cb(SubscribeReply{Options: SubscribeOptions{Type: e.Type}}, nil)
		}

		for i, ch := range cs.Chans {
			for k := 0; k < ch.Keys; k++ {
				if _, err := w.node.MapPublish(context.Background(), names[i], fmt.Sprintf("k%d", k), MapPublishOptions{Data: []byte(`{"v":1}`)}); err != nil {
					return "infra: map publish: " + err.Error()
				}
			}
		}
		for i, ch := range cs.Chans {
			if ch.Keys > 0 {
				r, err := w.node.MapStateRead(context.Background(), names[i], MapReadStateOptions{Limit: 1})
				if err != nil || len(r.Publications) != 1 || (ch.Keys > 1) != (r.Cursor != "") {
					return fmt.Sprintf("infra: map state of %q after %d publishes: err=%v pubs=%d cursor=%q", names[i], ch.Keys, err, len(r.Publications), r.Cursor)
				}
			}
		}
		// paging: map subscribes that answered a state page with a cursor (they sit in c.mapSubscribing until the last page)
		paging := map[string]string{}
		var pagingOrder []string
		notePage := func(ch string, rep *protocol.Reply) {
			cur := ""
			if rep != nil && rep.Error == nil && rep.Subscribe != nil {
				cur = rep.Subscribe.Cursor
			}
			if cur != "" {
				if _, ok := paging[ch]; !ok {
					pagingOrder = append(pagingOrder, ch)
				}
				paging[ch] = cur
				return
			}
			if _, ok := paging[ch]; ok {
				delete(paging, ch)
				for i, x := range pagingOrder {
					if x == ch {
						pagingOrder = append(pagingOrder[:i:i], pagingOrder[i+1:]...)
						break
					}
				}
			}
		}
		conn := w.NewConn(vfConnCfg{Name: "s", User: "u", Proto: cs.Proto})
		conn.Connect(nil)
		vfSettle()
		client := conn.Client
		closed := func() (bool, Disconnect) { return conn.T.Closed() }
		// held reads the connection's channel bookkeeping directly.
		type heldT struct {
			total     int
			channels  int // len(c.channels) alone
			reserved  map[string]bool // in c.channels or c.mapSubscribing
			committed map[string]bool // flagSubscribed
		}
		held := func() heldT {
			h := heldT{reserved: map[string]bool{}, committed: map[string]bool{}}
			client.mu.RLock()
			for ch, ctx := range client.channels {
				h.reserved[ch] = true
				if channelHasFlag(ctx.flags, flagSubscribed) {
					h.committed[ch] = true
				}
			}
			for ch := range client.mapSubscribing {
				h.reserved[ch] = true
			}
			h.total = len(h.reserved)
			h.channels = len(client.channels)
			client.mu.RUnlock()
			return h
		}
		frames := func() string { return vfRenderFrames(conn.Frames()) }
		invariant := func(where string) string {
			if c, _ := closed(); c {
				return ""
			}
			h := held()
			if h.total > cs.Limit {
				chs := make([]string, 0, len(h.reserved))
				for ch := range h.reserved {
					chs = append(chs, ch)
				}
				sort.Strings(chs)
				return fmt.Sprintf("%s: connection holds %d channels %q, ClientChannelLimit is %d; frames: %s", where, h.total, chs, cs.Limit, frames())
			}
			return ""
		}
		repliesFor := func(id uint32) []*protocol.Reply {
			var out []*protocol.Reply
			for _, f := range conn.Frames() {
				if f.Err == nil && f.Reply.Id == id {
					out = append(out, f.Reply)
				}
			}
			return out
		}

		// ---- connect-time subscriptions -------------------------------------------------------------------
		if cs.ConnectSubs > 0 {
			label("connect_time_subs")
		}
		if cs.ConnectSubs > cs.Limit {
			label("connect_time_over_limit")
			c, d := closed()
			if !c || d.Code != DisconnectChannelLimit.Code {
				return fmt.Sprintf("connect with %d server-side subscriptions and limit %d: expected disconnect %d, closed=%v code=%d; frames: %s",
					cs.ConnectSubs, cs.Limit, DisconnectChannelLimit.Code, c, d.Code, frames())
			}
			return ""
		}
		if c, d := closed(); c {
			return fmt.Sprintf("connection closed after connect with %d <= limit server-side subscriptions: %d %s", cs.ConnectSubs, d.Code, d.Reason)
		}
		if m := invariant("after connect"); m != "" {
			return m
		}
		inflight := func(ch string) bool {
			for _, p := range parked {
				if p.ch == ch {
					return true
				}
			}
			return false
		}
		mapTOCTOU := "C37:map-subscribe-limit-checked-before-async-authorization-not-at-reservation"
		complete := func(p *vfC37Parked, fail bool, where string) string {
			for i, q := range parked {
				if q == p {
					parked = append(parked[:i:i], parked[i+1:]...)
					break
				}
			}
			wasClosed, _ := closed()
			before := held()
			done := make(chan struct{})
			go func() {
				defer close(done)
				if fail {
					p.cb(SubscribeReply{}, ErrorPermissionDenied)
				} else {
					p.cb(SubscribeReply{Options: SubscribeOptions{Type: p.typ}}, nil)
				}
			}()
			vfSettle()
			<-done
			if wasClosed {
				return ""
			}
			if c, _ := closed(); c {
				return ""
			}
			reps := repliesFor(p.id)
			if len(reps) != 1 {
				return fmt.Sprintf("%s: %d replies to subscribe #%d after its callback completed; frames: %s", where, len(reps), p.id, frames())
			}
			if fail {
				if reps[0].Error == nil || reps[0].Error.Code != ErrorPermissionDenied.Code {
					return fmt.Sprintf("%s: handler rejected the subscribe with permission denied, reply is %s", where, vfRenderReply(reps[0]))
				}
				if held().reserved[p.ch] {
					return fmt.Sprintf("%s: channel %q is still held after its subscribe was rejected by the handler", where, p.ch)
				}
				return ""
			}
			if p.mp {
				notePage(p.ch, reps[0])
				if _, ok := paging[p.ch]; ok {
					label("map_subscribe_paginating")
				}
				// The map path reserves its slot only now.
				if before.total >= cs.Limit && !before.reserved[p.ch] {
					label("map_callback_at_limit")
					after := held()
					if after.total > cs.Limit {
						if isKnown(mapTOCTOU) {
							out.known = append(out.known, mapTOCTOU)
							out.knownEx = fmt.Sprintf("limit=%d: map subscribe to %q authorized asynchronously while %d channels were held -> %d held", cs.Limit, p.ch, before.total, after.total)
							return "KNOWN"
						}
						return fmt.Sprintf("[%s] %s: map subscribe to %q completed while %d channels were already held (limit %d): connection now holds %d; reply %s; frames: %s",
							mapTOCTOU, where, p.ch, before.total, cs.Limit, after.total, vfRenderReply(reps[0]), frames())
					}
					if reps[0].Error == nil {
						return fmt.Sprintf("%s: map subscribe to %q succeeded although the limit %d was reached", where, p.ch, cs.Limit)
					}
				}
				return ""
			}
			if reps[0].Error != nil {
				return fmt.Sprintf("%s: subscribe #%d to %q held a reservation but its reply is %s", where, p.id, p.ch, vfRenderReply(reps[0]))
			}
			return ""
		}

		// pageNext asks for the next state page of a paginating map subscribe.
		pageNext := func(ch, where string) string {
			id := conn.NextID()
			curID = id
			conn.Cmd(&protocol.Command{Id: id, Subscribe: &protocol.SubscribeRequest{Channel: ch, Type: int32(SubscriptionTypeMap), Cursor: paging[ch],
				Phase: MapPhaseState, Limit: int32(cs.Page)}})
			vfSettle()
			if c, _ := closed(); c {
				return ""
			}
			reps := repliesFor(id)
			if len(reps) != 1 {
				return fmt.Sprintf("%s: %d replies to page request #%d; frames: %s", where, len(reps), id, frames())
			}
			if reps[0].Error != nil {
				label("map_page_error")
			} else if reps[0].Subscribe != nil && reps[0].Subscribe.Cursor == "" {
				label("map_subscribe_live_after_pagination")
			}
			notePage(ch, reps[0])
			return ""
		}

		attemptsAtLimit := 0
		for si, s := range cs.Steps {
			where := fmt.Sprintf("step %d %s", si, s)
			if c, _ := closed(); c {
				label("closed_before_end")
				break
			}
			switch s.Kind {
			case 0:
				ch := names[s.Ch]
				if inflight(ch) {
					continue // one attempt per channel at a time: racing attempts on the same channel are not this property's subject
				}
				if _, ok := paging[ch]; ok && s.Map {
					continue // a map request for a channel that is mid-pagination is a continuation of it; only page steps continue
				}
				h := held()
				pendingMap := 0
				for _, p := range parked {
					if p.mp {
						pendingMap++
					}
				}
				id := conn.NextID()
				curID = id
				nextAsync = s.Async
				calls := handlerCalls
				req := &protocol.SubscribeRequest{Channel: ch}
				if s.Map {
					req.Type = int32(SubscriptionTypeMap)
					req.Limit = int32(cs.Page)
					if !s.Live {
						req.Phase = MapPhaseState // paginate the state first; otherwise a direct-to-live join
					}
				}
				conn.Cmd(&protocol.Command{Id: id, Subscribe: req})
				vfSettle()
				nextAsync = false
				invoked := handlerCalls > calls
				reps := repliesFor(id)
				c, d := closed()
				runes := utf8.RuneCountInString(ch)
				if (len(parked) > 0 || len(paging) > 0) && h.total+pendingMap >= cs.Limit {
					out.nontrivial = true
					label("attempt_at_limit_with_inflight")
				}
				if len(parked) >= cs.Limit+1 {
					label("limit_plus_1_in_flight")
				}
				errCode := uint32(0)
				if len(reps) == 1 && reps[0].Error != nil {
					errCode = reps[0].Error.Code
				}
				switch {
				case runes > cs.MaxLen:
					label("channel_too_long")
					rejected := (len(reps) == 1 && errCode == ErrorBadRequest.Code) || (c && d.Code == DisconnectBadRequest.Code)
					if !rejected || invoked {
						return fmt.Sprintf("%s: channel %q (%d characters) exceeds ChannelMaxLength %d but was not rejected as bad request (handler invoked=%v); frames: %s",
							where, ch, runes, cs.MaxLen, invoked, frames())
					}
					continue
				case len(ch) > cs.MaxLen && errCode == ErrorBadRequest.Code:
					label("channel_too_long_in_bytes_only")
					continue
				}
				if len(ch) <= cs.MaxLen && errCode == ErrorBadRequest.Code {
					return fmt.Sprintf("%s: channel %q (%d bytes) is within ChannelMaxLength %d but was rejected as bad request", where, ch, len(ch), cs.MaxLen)
				}
				if len(ch) == cs.MaxLen {
					label("channel_exactly_max_len")
				}
				if c {
					return fmt.Sprintf("%s: connection closed (%d %s) by a client subscribe; frames: %s", where, d.Code, d.Reason, frames())
				}
				switch {
				case h.reserved[ch]:
					label("already_held")
					if invoked || len(reps) != 1 || (errCode != ErrorAlreadySubscribed.Code && errCode != ErrorLimitExceeded.Code) {
						return fmt.Sprintf("%s: channel %q is already held, expected an already-subscribed/limit error without a handler call; invoked=%v frames: %s", where, ch, invoked, frames())
					}
				case h.total >= cs.Limit:
					attemptsAtLimit++
					label("client_attempt_at_limit")
					if invoked || len(reps) != 1 || errCode != ErrorLimitExceeded.Code {
						return fmt.Sprintf("%s: %d channels held (limit %d), expected error %d without a handler call; invoked=%v frames: %s", where, h.total, cs.Limit,
							ErrorLimitExceeded.Code, invoked, frames())
					}
				default:
					if !invoked {
						return fmt.Sprintf("%s: %d channels held (limit %d) but the subscribe was refused: frames: %s", where, h.total, cs.Limit, frames())
					}
					if s.Async {
						label("subscribe_parked")
						if len(reps) != 0 {
							return fmt.Sprintf("%s: reply before the handler answered; frames: %s", where, frames())
						}
					} else {
						if len(reps) != 1 || reps[0].Error != nil || reps[0].Subscribe == nil {
							if s.Map && len(reps) == 1 && errCode == ErrorLimitExceeded.Code {
								continue
							}
							return fmt.Sprintf("infra: %s: synchronous subscribe below the limit did not succeed; frames: %s", where, frames())
						}
						label("subscribe_ok")
						if s.Map {
							notePage(ch, reps[0])
							if _, ok := paging[ch]; ok {
								label("map_subscribe_paginating")
							} else {
								label(fmt.Sprintf("map_subscribe_single_page_keys%d_state%d", cs.Chans[s.Ch].Keys, len(reps[0].Subscribe.State)))
							}
						}
					}
				}
			case 1:
				if len(parked) == 0 {
					continue
				}
				p := parked[s.Idx%len(parked)]
				if m := complete(p, s.Err, where); m != "" {
					if m == "KNOWN" {
						return ""
					}
					return m
				}
			case 2:
				ch := names[s.Ch]
				if inflight(ch) {
					continue
				}
				h := held()
				if (len(parked) > 0 || len(paging) > 0) && h.total >= cs.Limit {
					out.nontrivial = true
					label("attempt_at_limit_with_inflight")
				}
				var serr error
				done := make(chan struct{})
				go func() { defer close(done); serr = client.Subscribe(ch) }()
				vfSettle()
				<-done
				c, d := closed()
				switch {
				case h.reserved[ch]:
					label("server_sub_already_held")
				case h.total >= cs.Limit:
					label("server_attempt_at_limit")
					if !c && h.channels < cs.Limit {
						// only map subscribes that are still loading (c.mapSubscribing) fill the connection
						key := "C37:server-side-subscribe-limit-ignores-loading-map-subscriptions"
						if isKnown(key) {
							out.known = append(out.known, key)
							out.knownEx = fmt.Sprintf("limit=%d: %d channels held of which %d are map subscribes still paginating; Client.Subscribe(%q) accepted", cs.Limit, h.total, h.total-h.channels, ch)
							return ""
						}
						return fmt.Sprintf("[%s] %s: %d channels held (limit %d, %d of them map subscribes still loading): server-side subscribe must disconnect with %d but was accepted; frames: %s",
							key, where, h.total, cs.Limit, h.total-h.channels, DisconnectChannelLimit.Code, frames())
					}
					if !c || d.Code != DisconnectChannelLimit.Code {
						return fmt.Sprintf("%s: %d channels held (limit %d): server-side subscribe must disconnect with %d; closed=%v code=%d err=%v; frames: %s", where,
							h.total, cs.Limit, DisconnectChannelLimit.Code, c, d.Code, serr, frames())
					}
				default:
					if c || serr != nil || !held().committed[ch] {
						return fmt.Sprintf("%s: %d channels held (limit %d): server-side subscribe should succeed; closed=%v code=%d err=%v; frames: %s", where,
							h.total, cs.Limit, c, d.Code, serr, frames())
					}
					label("server_sub_ok")
				}
			case 3, 4:
				ch := names[s.Ch]
				if inflight(ch) {
					continue
				}
				if _, ok := paging[ch]; ok {
					continue // an unsubscribe waits (5 s, then server error) for a map subscribe that is still loading
				}
				if s.Kind == 3 {
					conn.Cmd(&protocol.Command{Id: conn.NextID(), Unsubscribe: &protocol.UnsubscribeRequest{Channel: ch}})
				} else {
					client.Unsubscribe(ch)
				}
				vfSettle()
				if c, _ := closed(); !c && held().reserved[ch] {
					return fmt.Sprintf("%s: channel %q still held after unsubscribe", where, ch)
				}
				label("unsubscribed")
			case 6:
				if len(pagingOrder) == 0 {
					continue
				}
				if m := pageNext(pagingOrder[s.Idx%len(pagingOrder)], where); m != "" {
					return m
				}
			case 5:
				// No subscribe may be in flight during a burst: a slow close would wait 5 s (virtual) per reservation while
				// further close() attempts block on connectMu, which a synctest bubble cannot wait out.
				for len(parked) > 0 {
					if m := complete(parked[0], false, where+" (completing parked subscribes first)"); m != "" {
						if m == "KNOWN" {
							return ""
						}
						return m
					}
					if m := invariant(where); m != "" {
						return m
					}
				}
				if c, _ := closed(); c {
					continue
				}
				if m := vfC37Burst(w, conn, cs, s, where, out); m != "" {
					return m
				}
			}
			if m := invariant(where); m != "" {
				return m
			}
		}
		// complete everything still parked, in the drawn order
		for i := 0; len(parked) > 0; i++ {
			if c, _ := closed(); c {
				// close() waits up to 5 s (virtual time) for every in-flight subscribe while holding connectMu, and every
				// timeout spawns another close() that blocks on that mutex - which a synctest bubble can never wait out.
				// So on a closed connection all parked callbacks are completed together, before anything waits.
				var dones []chan struct{}
				for j := 0; len(parked) > 0; j++ {
					k := cs.FinalOrder[(i+j)%len(cs.FinalOrder)] % len(parked)
					p := parked[k]
					parked = append(parked[:k:k], parked[k+1:]...)
					done := make(chan struct{})
					dones = append(dones, done)
					go func() {
						defer close(done)
						p.cb(SubscribeReply{Options: SubscribeOptions{Type: p.typ}}, nil)
					}()
				}
				for _, d := range dones {
					<-d
				}
				vfSettle()
				break
			}
			p := parked[cs.FinalOrder[i%len(cs.FinalOrder)]%len(parked)]
			where := fmt.Sprintf("final completion of subscribe #%d (%q)", p.id, p.ch)
			if m := complete(p, false, where); m != "" {
				if m == "KNOWN" {
					return ""
				}
				return m
			}
			if m := invariant(where); m != "" {
				return m
			}
		}
		// finish every pagination: the subscriptions go live and move from c.mapSubscribing to c.channels
		for i := 0; len(pagingOrder) > 0 && i < 40; i++ {
			if c, _ := closed(); c {
				break
			}
			where := fmt.Sprintf("final paging of %q", pagingOrder[0])
			if m := pageNext(pagingOrder[0], where); m != "" {
				return m
			}
			if m := invariant(where); m != "" {
				return m
			}
		}
		if attemptsAtLimit > 0 {
			label("limit_reached")
		}
		return ""
	})
}

// vfC37Burst accumulates pending bytes in the subject's queue while its transport write is parked at a gate.
func vfC37Burst(w *vfWorld, conn *vfConn, cs vfC37Case, s vfC37Step, where string, out *vfC37Out) string {
	label := func(l string) { out.labels = append(out.labels, l) }
	client := conn.Client
	// a committed channel for hub publications
	var pubCh string
	client.mu.RLock()
	var chs []string
	for ch, ctx := range client.channels {
		if channelHasFlag(ctx.flags, flagSubscribed) && !channelHasFlag(ctx.flags, flagMap) {
			chs = append(chs, ch)
		}
	}
	client.mu.RUnlock()
	sort.Strings(chs)
	if len(chs) > 0 {
		pubCh = chs[0]
	}
	payload := func(n int) []byte {
		if n < 2 {
			n = 2
		}
		return []byte(`"` + strings.Repeat("a", n-2) + `"`)
	}
	deliver := func(it vfC37Item) {
		if it.Pub && pubCh != "" {
			_, _ = w.node.Publish(pubCh, payload(it.Size))
		} else {
			_ = client.Send(payload(it.Size))
		}
	}
	// With per-channel batching publications are buffered per channel and handed to the connection writer K at a time
	// through enqueueMany: every item becomes a publication, their number is padded to a multiple of K and the payloads
	// are kept small enough for one batch to pass an idle queue.
	items := s.Items
	copies := 1
	if cs.Batch > 0 && pubCh != "" {
		copies = cs.Batch
		room := cs.QueueMax/(2*cs.Batch) - 80
		if room < 1 {
			room = 1
		}
		items = nil
		for i := 0; i < len(s.Items) || len(items)%cs.Batch != 0; i++ {
			it := s.Items[i%len(s.Items)]
			items = append(items, vfC37Item{Pub: true, Size: 2 + it.Size%room})
		}
		label("burst_through_enqueue_many")
	}
	// 1. calibration run with an open gate: exact frame size of every item
	sizes := make([]int, len(items))
	for i, it := range items {
		n0 := len(conn.Frames())
		for k := 0; k < copies; k++ {
			deliver(it)
		}
		vfSettle()
		fs := conn.Frames()
		if c, d := conn.T.Closed(); c {
			return fmt.Sprintf("%s: connection closed (%d %s) while a single message of payload %d was written with an idle queue (max %d)", where, d.Code, d.Reason, it.Size, cs.QueueMax)
		}
		if len(fs) != n0+copies {
			return fmt.Sprintf("infra: %s: calibration item %d produced %d frames", where, i, len(fs)-n0)
		}
		sizes[i] = len(fs[n0].Raw)
	}
	sendSize := func(n int) int {
		b, err := client.getSendPushReply(payload(n))
		if err != nil {
			return -1
		}
		return len(b)
	}
	// 2. park the writer inside the transport write
	w.Gates.Arm("write:"+conn.Name, 1<<20)
	_ = client.Send(payload(2))
	vfSettle()
	if w.Gates.Waiting("write:"+conn.Name) != 1 {
		w.Gates.Disarm("write:" + conn.Name)
		w.Gates.ReleaseAll()
		return "infra: " + where + ": writer did not park at the write gate"
	}
	// 3. no settle from here until the gate is released: close() of a slow connection waits on the writer's mutex
	pending := 0
	for _, it := range items {
		deliver(it)
	}
	for _, sz := range sizes {
		pending += sz
	}
	boundary := false
	if s.Final {
		want := cs.QueueMax + s.Delta - pending
		for n := 2; n <= want; n++ {
			if sz := sendSize(n); sz == want {
				_ = client.Send(payload(n))
				pending += want
				boundary = true
				break
			} else if sz > want {
				break
			}
		}
	}
	n0 := len(conn.Frames())
	w.Gates.Disarm("write:" + conn.Name)
	for w.Gates.Release("write:" + conn.Name) {
	}
	vfSettle()
	time.Sleep(10 * time.Millisecond)
	vfSettle()
	c, d := conn.T.Closed()
	near := pending*5 >= cs.QueueMax*4 && pending*5 <= cs.QueueMax*6
	if near {
		out.nontrivial = true
		label("burst_within_20pct_of_queue_max")
	}
	if boundary && s.Delta >= -1 && s.Delta <= 1 {
		label(fmt.Sprintf("burst_pending_eq_max%+d", s.Delta))
	}
	if pending > cs.QueueMax {
		label("burst_over_max")
		if !c || d.Code != DisconnectSlow.Code {
			return fmt.Sprintf("%s: %d bytes were pending in the queue (ClientQueueMaxSize %d) but the connection was not closed as slow: closed=%v code=%d", where, pending,
				cs.QueueMax, c, d.Code)
		}
		return ""
	}
	label("burst_within_max")
	if c && d.Code == DisconnectSlow.Code {
		return fmt.Sprintf("%s: connection closed as slow with only %d bytes pending (ClientQueueMaxSize %d)", where, pending, cs.QueueMax)
	}
	if c {
		return fmt.Sprintf("%s: connection closed with %d %s during a burst of %d pending bytes (max %d)", where, d.Code, d.Reason, pending, cs.QueueMax)
	}
	// self-check of the size model: everything queued must now be on the wire with the calibrated sizes
	fs := conn.Frames()[n0:]
	got := 0
	for _, f := range fs {
		got += len(f.Raw)
	}
	primer := sendSize(2)
	if got != pending+primer {
		return fmt.Sprintf("infra: %s: size model mismatch: %d bytes written after release, model says %d pending + %d primer", where, got, pending, primer)
	}
	return ""
}

func TestVF_C37(t *testing.T) {
	vfCheck(t, "C37", func(rt *rapid.T, c *vfCase) string {
		cs := vfC37Gen(rt)
		c.Describe(cs.String())
		out := &vfC37Out{}
		msg := vfC37Run(t, cs, out, c.IsKnown)
		seen := map[string]bool{}
		for _, l := range out.labels {
			if !seen[l] {
				seen[l] = true
				c.Label(l)
			}
		}
		for _, k := range out.known {
			c.Known(k, out.knownEx)
		}
		if out.nontrivial {
			c.Nontrivial(c.desc)
		}
		return msg
	})
}
