package PKGNAME

// C41 — Survey collects one answer per node and terminates.
// 2-4 nodes on an in-memory controller with a fault proxy on survey responses (drop, duplicate, hold + late release),
// injected responses with foreign / stale survey ids and from unknown nodes, concurrent surveys with drawn deadlines,
// handlers answering at once / late / never / twice.

import (
	"context"
	"fmt"
	"sort"
	"strings"
	"sync"
	"testing"
	"time"

	"github.com/centrifugal/centrifuge/internal/controlpb"
	"github.com/centrifugal/centrifuge/internal/controlproto"
	"pgregory.net/rapid"
)

type vfC41Survey struct {
	From     int
	Deadline int // ms; 0 = the caller's context has no deadline (the node's default survey timeout, 10 s, applies)
	StartAt  int // ms after start
	To       int // -1 all, else node index
}

type vfC41Case struct {
	Nodes    int
	Behave   [][]int // [node][survey index] 0 answer now, 1 answer after LateMs, 2 never, 3 twice
	LateMs   int
	Fault    [][]int // [survey][responder node] 0 deliver, 1 drop, 2 dup, 3 hold (released at the end)
	Surveys  []vfC41Survey
	Inject   []int // kinds of injected bogus responses: 0 stale id, 1 future id, 2 current id from unknown node uid
}

func (c vfC41Case) String() string {
	var sv []string
	for i, s := range c.Surveys {
		sv = append(sv, fmt.Sprintf("survey%d{from=n%d to=%d deadline=%dms startAt=%dms faults=%v}", i, s.From, s.To, s.Deadline, s.StartAt, c.Fault[i]))
	}
	return fmt.Sprintf("nodes=%d lateMs=%d behave=%v inject=%v %s", c.Nodes, c.LateMs, c.Behave, c.Inject, strings.Join(sv, " "))
}

func vfC41Gen(rt *rapid.T) vfC41Case {
	c := vfC41Case{}
	c.Nodes = rapid.IntRange(2, 4).Draw(rt, "nodes")
	ns := rapid.IntRange(1, 3).Draw(rt, "nsurveys")
	c.LateMs = rapid.SampledFrom([]int{300, 1500, 4000}).Draw(rt, "lateMs")
	for i := 0; i < ns; i++ {
		s := vfC41Survey{From: rapid.IntRange(0, 1).Draw(rt, "from"), Deadline: rapid.SampledFrom([]int{1000, 2000, 5000, 1000, 2000, 5000, 0}).Draw(rt, "deadline"),
			StartAt: rapid.SampledFrom([]int{0, 0, 100, 700}).Draw(rt, "startAt"), To: -1}
		if rapid.IntRange(0, 4).Draw(rt, "directed") == 0 {
			s.To = rapid.IntRange(0, c.Nodes-1).Draw(rt, "to")
		}
		c.Surveys = append(c.Surveys, s)
		var f []int
		for n := 0; n < c.Nodes; n++ {
			f = append(f, rapid.SampledFrom([]int{0, 0, 0, 0, 1, 2, 3}).Draw(rt, "fault"))
		}
		c.Fault = append(c.Fault, f)
	}
	for n := 0; n < c.Nodes; n++ {
		var b []int
		for i := 0; i < ns; i++ {
			b = append(b, rapid.SampledFrom([]int{0, 0, 0, 0, 1, 2, 3}).Draw(rt, "behave"))
		}
		c.Behave = append(c.Behave, b)
	}
	ni := rapid.IntRange(0, 3).Draw(rt, "ninject")
	for i := 0; i < ni; i++ {
		c.Inject = append(c.Inject, rapid.IntRange(0, 1).Draw(rt, "inject"))
	}
	return c
}

type vfC41Out struct {
	labels     []string
	nontrivial bool
	known      []string
	knownEx    string
}

type vfC41Result struct {
	res      map[string]SurveyResult
	err      error
	started  time.Duration
	returned time.Duration
	done     bool
}

func vfC41Run(t *testing.T, cs vfC41Case, out *vfC41Out, isKnown func(string) bool) string {
	return vfBubble(t, func() string {
		var mu sync.Mutex
		answered := map[string][]time.Duration{} // "surveyIdx/nodeIdx" -> times at which that node called back
		invoked := map[string]int{}               // "surveyIdx/nodeIdx" -> number of handler invocations
		start := time.Now()
		var ws []*vfWorld
		var bus *vfControlBus
		var err error
		ws, bus, err = vfNewCluster(cs.Nodes, func(i int) Config { return Config{Name: fmt.Sprintf("n%d", i)} }, func(i int, w *vfWorld) {
			w.node.OnSurvey(func(e SurveyEvent, cb SurveyCallback) {
				var si int
				_, _ = fmt.Sscanf(string(e.Data), "s%d", &si)
				if si == -1 {
					cb(SurveyReply{Code: 1})
					return
				}
				if si < 0 || si >= len(cs.Surveys) {
					return
				}
				mu.Lock()
				invoked[fmt.Sprintf("%d/%d", si, i)]++
				mu.Unlock()
				reply := SurveyReply{Code: uint32(100 + i), Data: []byte(fmt.Sprintf("s%d-from-n%d", si, i))}
				note := func() {
					mu.Lock()
					k := fmt.Sprintf("%d/%d", si, i)
					answered[k] = append(answered[k], time.Since(start))
					mu.Unlock()
				}
				behave := cs.Behave[i][si]
				if behave == 3 && cs.Surveys[si].From == i {
					behave = 0 // answering twice is only modelled for remote responders (two responses on the wire)
				}
				switch behave {
				case 0:
					note()
					cb(reply)
				case 1:
					go func() {
						time.Sleep(time.Duration(cs.LateMs) * time.Millisecond)
						note()
						cb(reply)
					}()
				case 2:
				case 3:
					note()
					cb(reply)
					cb(reply)
				}
			})
		})
		if err != nil {
			return "infra: " + err.Error()
		}
		defer func() {
			for _, w := range ws {
				w.Close()
			}
			bus.Close()
		}()
		ids := make([]string, cs.Nodes)
		idx := map[string]int{}
		for i, w := range ws {
			ids[i] = w.node.ID()
			idx[ids[i]] = i
		}
		for i, w := range ws {
			if w.node.nodes.size() != cs.Nodes {
				return fmt.Sprintf("infra: node %d knows %d nodes, expected %d", i, w.node.nodes.size(), cs.Nodes)
			}
		}
		dec := controlproto.NewProtobufDecoder()
		enc := controlproto.NewProtobufEncoder()
		// survey request id -> survey index, learned from the requests passing the bus
		var reqMu sync.Mutex
		surveyIdxByReq := map[string]int{} // "fromNode/id"
		faultsApplied := 0
		bus.Fault = func(m vfCtlMsg) vfFault {
			cmd, err := dec.DecodeCommand(m.Data)
			if err != nil {
				return vfDeliver
			}
			if cmd.SurveyRequest != nil {
				var si int
				if _, err := fmt.Sscanf(string(cmd.SurveyRequest.Data), "s%d", &si); err == nil {
					reqMu.Lock()
					surveyIdxByReq[fmt.Sprintf("%s/%d", m.From, cmd.SurveyRequest.Id)] = si
					reqMu.Unlock()
				}
				return vfDeliver
			}
			if cmd.SurveyResponse != nil {
				reqMu.Lock()
				si, ok := surveyIdxByReq[fmt.Sprintf("%s/%d", m.To, cmd.SurveyResponse.Id)]
				reqMu.Unlock()
				if !ok {
					return vfDeliver
				}
				f := cs.Fault[si][idx[m.From]]
				if f != 0 {
					faultsApplied++
				}
				return []vfFault{vfDeliver, vfDrop, vfDup, vfHold}[f]
			}
			return vfDeliver
		}

		results := make([]*vfC41Result, len(cs.Surveys))
		var wg sync.WaitGroup
		stopAll, stopAllFn := context.WithCancel(context.Background())
		defer stopAllFn()
		for i := range cs.Surveys {
			if cs.Surveys[i].Deadline == 0 {
				out.labels = append(out.labels, "survey_without_caller_deadline")
			}
		}
		for i, s := range cs.Surveys {
			i, s := i, s
			results[i] = &vfC41Result{}
			wg.Add(1)
			go func() {
				defer wg.Done()
				time.Sleep(time.Duration(s.StartAt) * time.Millisecond)
				var ctx context.Context
				var cancel context.CancelFunc
				if s.Deadline > 0 {
					ctx, cancel = context.WithTimeout(context.Background(), time.Duration(s.Deadline)*time.Millisecond)
				} else {
					ctx, cancel = context.WithCancel(stopAll) // no deadline of its own
				}
				defer cancel()
				to := ""
				if s.To >= 0 {
					to = ids[s.To]
				}
				results[i].started = time.Since(start)
				res, err := ws[s.From].node.Survey(ctx, "vf", []byte(fmt.Sprintf("s%d", i)), to)
				results[i].res, results[i].err, results[i].returned, results[i].done = res, err, time.Since(start), true
			}()
		}
		// bogus responses while the surveys run
		time.Sleep(50 * time.Millisecond)
		for _, k := range cs.Inject {
			var id uint64
			uid := ids[len(ids)-1]
			switch k {
			case 0:
				id = 0
			case 1:
				id = 1 << 40
			case 2:
				id = 1 // a live id of node 0 (first survey issued there), claimed by an unknown node
				uid = "00000000-0000-4000-8000-00000000dead"
			}
			data, _ := enc.EncodeCommand(&controlpb.Command{Uid: uid, SurveyResponse: &controlpb.SurveyResponse{Id: id, Code: 999, Data: []byte("bogus")}})
			bus.Inject(ids[0], data)
		}
		allDone := make(chan struct{})
		go func() { wg.Wait(); close(allDone) }()
		select {
		case <-allDone:
		case <-time.After(40 * time.Second): // virtual; far beyond every deadline including the default one
		}
		vfSettle()
		// release held (now late) responses: they must not disturb anything
		for bus.NumHeld() > 0 {
			bus.ReleaseHeld(0)
		}
		vfSettle()
		// control path still alive: a fresh survey from node 0 with well-behaved handlers completes
		bus.Fault = nil
		probeCtx, cancel := context.WithTimeout(context.Background(), 3*time.Second)
		defer cancel()
		// reuse survey index of a survey for which all nodes answer at once, if any; else skip the probe payload semantics
		probeStart := time.Since(start)
		_, _ = ws[0].node.Survey(probeCtx, "vf", []byte("s-1"), "")
		probeTook := time.Since(start) - probeStart
		if probeTook > 3100*time.Millisecond {
			return fmt.Sprintf("control path blocked: a probe survey after late/foreign responses took %v", probeTook)
		}

		concurrent := len(cs.Surveys) >= 2
		for i, s := range cs.Surveys {
			r := results[i]
			if s.Deadline == 0 {
				s.Deadline = int(defaultSurveyTimeout / time.Millisecond)
			}
			if !r.done {
				stopAllFn()
				vfSettle()
				return fmt.Sprintf("survey%d never returned (40 s after it was started; its deadline was %d ms)", i, s.Deadline)
			}
			// the request reaches the handler of every addressed node (requests are never faulted here; the issuing
			// node invokes its own handler directly)
			for n := 0; n < cs.Nodes; n++ {
				if s.To >= 0 && s.To != n {
					continue
				}
				mu.Lock()
				inv := invoked[fmt.Sprintf("%d/%d", i, n)]
				mu.Unlock()
				if inv == 0 {
					return fmt.Sprintf("survey%d (from n%d, to=%d): the handler of addressed node n%d was never invoked", i, s.From, s.To, n)
				}
			}
			took := r.returned - r.started
			if took > time.Duration(s.Deadline)*time.Millisecond+50*time.Millisecond {
				return fmt.Sprintf("survey%d returned after %v, deadline was %dms", i, took, s.Deadline)
			}
			expectedNodes := cs.Nodes
			if s.To >= 0 {
				expectedNodes = 1
			}
			// which nodes produced an answer that could reach the issuer in time
			inTime := map[int]bool{}
			var lastArrival time.Duration
			for n := 0; n < cs.Nodes; n++ {
				if s.To >= 0 && s.To != n {
					continue
				}
				ts := answered[fmt.Sprintf("%d/%d", i, n)]
				remote := n != s.From
				if len(ts) == 0 {
					continue
				}
				if remote && (cs.Fault[i][n] == 1 || cs.Fault[i][n] == 3) {
					continue // dropped or held until after the survey returned
				}
				if ts[0]-r.started < time.Duration(s.Deadline)*time.Millisecond {
					inTime[n] = true
					if ts[0] > lastArrival {
						lastArrival = ts[0]
					}
				}
			}
			for uid, v := range r.res {
				n, ok := idx[uid]
				if !ok {
					return fmt.Sprintf("survey%d result contains unknown node id %s (code %d data %q)", i, uid, v.Code, v.Data)
				}
				want := fmt.Sprintf("s%d-from-n%d", i, n)
				if string(v.Data) != want || v.Code != uint32(100+n) {
					return fmt.Sprintf("survey%d result for node n%d is (%d,%q), that node answered (%d,%q) for this survey", i, n, v.Code, v.Data, 100+n, want)
				}
				if len(answered[fmt.Sprintf("%d/%d", i, n)]) == 0 {
					return fmt.Sprintf("survey%d has a result for node n%d which never answered it", i, n)
				}
				if s.To >= 0 && s.To != n {
					return fmt.Sprintf("survey%d was directed to n%d but has a result from n%d", i, s.To, n)
				}
			}
			if len(inTime) == expectedNodes {
				// everybody answered in time and nothing was lost: must return complete, without error, promptly
				if r.err != nil || len(r.res) != expectedNodes {
					var got []string
					for uid := range r.res {
						got = append(got, fmt.Sprintf("n%d", idx[uid]))
					}
					sort.Strings(got)
					msg := fmt.Sprintf("survey%d: every expected node answered in time but it returned %d results %v, err=%v (started %v returned %v, answers %v)", i, len(r.res), got, r.err, r.started, r.returned, answered)
					dupPresent := false
					for n := 0; n < cs.Nodes; n++ {
						if n != s.From && (cs.Fault[i][n] == 2 || cs.Behave[n][i] == 3) {
							dupPresent = true
						}
					}
					if dupPresent {
						key := "C41:duplicate-response-crowds-out-another-nodes-answer"
						if isKnown(key) {
							out.known = append(out.known, key)
							out.knownEx = msg
							continue
						}
						return "[" + key + "] " + msg
					}
					return msg
				}
				if r.returned > lastArrival+50*time.Millisecond {
					return fmt.Sprintf("survey%d: last answer arrived at %v but the survey returned at %v (deadline %dms)", i, lastArrival, r.returned, s.Deadline)
				}
				out.labels = append(out.labels, "survey_complete")
			} else {
				if r.err == nil && len(r.res) < expectedNodes {
					return fmt.Sprintf("survey%d returned %d of %d results without an error before its deadline", i, len(r.res), expectedNodes)
				}
				out.labels = append(out.labels, "survey_deadline")
			}
		}
		if concurrent && (faultsApplied > 0 || len(cs.Inject) > 0) {
			out.nontrivial = true
		}
		if faultsApplied > 0 {
			out.labels = append(out.labels, "response_fault_applied")
		}
		if len(cs.Inject) > 0 {
			out.labels = append(out.labels, "bogus_response_injected")
		}
		var keys []string
		for k := range answered {
			keys = append(keys, k)
		}
		sort.Strings(keys)
		return ""
	})
}

func TestVF_C41(t *testing.T) {
	vfCheck(t, "C41", func(rt *rapid.T, c *vfCase) string {
		cs := vfC41Gen(rt)
		c.Describe(cs.String())
		out := &vfC41Out{}
		msg := vfC41Run(t, cs, out, c.IsKnown)
		for _, k := range out.known {
			c.Known(k, out.knownEx)
		}
		seen := map[string]bool{}
		for _, l := range out.labels {
			if !seen[l] {
				seen[l] = true
				c.Label(l)
			}
		}
		if out.nontrivial {
			c.Nontrivial(c.desc)
		}
		return msg
	})
}
