package PKGNAME

// C15 — Tags filter evaluation matches its specification.
// Oracle: independent evaluator + independent well-formedness predicate written from the FilterNode
// documentation (protocol package) and the property statement. Numerals: acceptance is the engine's
// (udecimal.Parse), value comparison is exact via math/big.Rat parsed by an independent decimal reader.

import (
	"fmt"
	"math/big"
	"strings"
	"sync"
	"testing"

	"github.com/centrifugal/protocol"
	"github.com/quagmt/udecimal"
	"pgregory.net/rapid"
)

var vfC15Keys = []string{"a", "b", "n", "m", "", "ключ"}
var vfC15Cmps = []string{"eq", "neq", "in", "nin", "ex", "nex", "sw", "ew", "ct", "gt", "gte", "lt", "lte"}
var vfC15Strs = []string{"", "x", "xy", "y", "xyz", "X", "10", " ", "é"}

func vfC15Numeral(rt *rapid.T, label string) string {
	switch rapid.IntRange(0, 11).Draw(rt, label+"_nk") {
	case 0:
		return rapid.SampledFrom([]string{"", ".", "-", "+", "1e3", "1E3", " 1", "1 ", "0x10", "1,5", "NaN", "Inf", "-Inf", "١", "1_000", "--1", "+-1", "1..2", "1.2.3", "abc"}).Draw(rt, label+"_bad")
	case 1:
		return rapid.SampledFrom([]string{".5", "5.", "-.5", "+.5", "-5.", "+5", "-0", "+0", "0", "00", "0.0", "-0.0", "000.000"}).Draw(rt, label+"_edge")
	case 2: // huge integers
		n := rapid.IntRange(18, 45).Draw(rt, label+"_hl")
		d := rapid.StringOfN(rapid.RuneFrom([]rune("0123456789")), n, n, -1).Draw(rt, label+"_hd")
		return rapid.SampledFrom([]string{"", "-"}).Draw(rt, label+"_hs") + d
	case 3: // long fractions 17..21 digits
		n := rapid.IntRange(17, 21).Draw(rt, label+"_fl")
		d := rapid.StringOfN(rapid.RuneFrom([]rune("0123456789")), n, n, -1).Draw(rt, label+"_fd")
		ip := rapid.SampledFrom([]string{"0", "1", "12", "-1", "-0", "99999999999999999999"}).Draw(rt, label+"_fi")
		return ip + "." + d
	case 4: // very long string around maxStrLen=200
		n := rapid.IntRange(198, 203).Draw(rt, label+"_ll")
		return "1" + strings.Repeat("0", n-1)
	default:
		sign := rapid.SampledFrom([]string{"", "", "", "-", "+"}).Draw(rt, label+"_s")
		lead := rapid.SampledFrom([]string{"", "", "", "0", "00"}).Draw(rt, label+"_lz")
		ip := rapid.SampledFrom([]string{"0", "1", "2", "9", "10", "11", "100", "18446744073709551615", "18446744073709551616"}).Draw(rt, label+"_ip")
		fr := rapid.SampledFrom([]string{"", "", ".0", ".5", ".50", ".05", ".49999999999999999", ".4999999999999999999", ".5000000000000000001", ".000"}).Draw(rt, label+"_fr")
		return sign + lead + ip + fr
	}
}

func vfC15Value(rt *rapid.T, label string, numeric bool) string {
	if numeric || rapid.IntRange(0, 3).Draw(rt, label+"_isnum") == 0 {
		return vfC15Numeral(rt, label)
	}
	return rapid.SampledFrom(vfC15Strs).Draw(rt, label+"_str")
}

// vfC15Tree draws a tree; mostly well-formed, with occasional deliberate ill-formedness.
func vfC15Tree(rt *rapid.T, depth int, label string, illP int) *protocol.FilterNode {
	bad := func(tag string) bool {
		if illP == 0 {
			return false
		}
		return rapid.IntRange(0, illP).Draw(rt, label+"_ill_"+tag) == 0
	}
	kind := 0
	if depth > 0 {
		kind = rapid.IntRange(0, 5).Draw(rt, label+"_kind") // 0,1,2 leaf; 3 and; 4 or; 5 not
	}
	if kind <= 2 {
		n := &protocol.FilterNode{}
		n.Key = rapid.SampledFrom(vfC15Keys).Draw(rt, label+"_key")
		if n.Key == "" && !bad("emptykey") {
			n.Key = "a"
		}
		n.Cmp = rapid.SampledFrom(vfC15Cmps).Draw(rt, label+"_cmp")
		if bad("cmp") {
			n.Cmp = rapid.SampledFrom([]string{"", "EQ", "equals", "ge", "not"}).Draw(rt, label+"_badcmp")
		}
		switch n.Cmp {
		case "in", "nin":
			k := rapid.IntRange(1, 3).Draw(rt, label+"_nvals")
			for i := 0; i < k; i++ {
				n.Vals = append(n.Vals, vfC15Value(rt, fmt.Sprintf("%s_v%d", label, i), false))
			}
			if bad("novals") {
				n.Vals = nil
			}
			if bad("valtoo") {
				n.Val = "x"
			}
		case "ex", "nex":
			if bad("exval") {
				n.Val = "x"
			}
			if bad("exvals") {
				n.Vals = []string{"x"}
			}
			if n.Key == "a" && bad("exemptykey") {
				n.Key = ""
			}
		default:
			numeric := n.Cmp == "gt" || n.Cmp == "gte" || n.Cmp == "lt" || n.Cmp == "lte"
			if numeric && n.Key != "" && rapid.IntRange(0, 4).Draw(rt, label+"_numkey") > 0 {
				n.Key = rapid.SampledFrom([]string{"n", "m"}).Draw(rt, label+"_nk")
			}
			n.Val = vfC15Value(rt, label+"_val", numeric)
			if n.Val == "" && !bad("emptyval") {
				n.Val = "1"
			}
			if bad("valstoo") {
				n.Vals = []string{"x"}
			}
		}
		return n
	}
	n := &protocol.FilterNode{}
	switch kind {
	case 3:
		n.Op = "and"
	case 4:
		n.Op = "or"
	case 5:
		n.Op = "not"
	}
	k := 1
	if kind != 5 {
		k = rapid.IntRange(1, 3).Draw(rt, label+"_fan")
	}
	if bad("fan") {
		k = rapid.SampledFrom([]int{0, 2, 0}).Draw(rt, label+"_badfan")
	}
	if bad("op") {
		n.Op = rapid.SampledFrom([]string{"AND", "xor", "nand", " "}).Draw(rt, label+"_badop")
	}
	for i := 0; i < k; i++ {
		n.Nodes = append(n.Nodes, vfC15Tree(rt, depth-1, fmt.Sprintf("%s.%d", label, i), illP))
	}
	return n
}

func vfC15Render(n *protocol.FilterNode) string {
	if n == nil {
		return "<nil>"
	}
	if n.Op == "" {
		s := fmt.Sprintf("(%q %s", n.Key, n.Cmp)
		if n.Val != "" {
			s += fmt.Sprintf(" %q", n.Val)
		}
		if n.Vals != nil {
			s += fmt.Sprintf(" %q", n.Vals)
		}
		if len(n.Nodes) > 0 {
			s += fmt.Sprintf(" +%dnodes", len(n.Nodes))
		}
		return s + ")"
	}
	parts := []string{}
	for _, c := range n.Nodes {
		parts = append(parts, vfC15Render(c))
	}
	return "(" + n.Op + " " + strings.Join(parts, " ") + ")"
}

func vfC15Copy(n *protocol.FilterNode) *protocol.FilterNode {
	if n == nil {
		return nil
	}
	c := &protocol.FilterNode{Op: strings.Clone(n.Op), Key: strings.Clone(n.Key), Cmp: strings.Clone(n.Cmp), Val: strings.Clone(n.Val)}
	if n.Vals != nil {
		c.Vals = make([]string, len(n.Vals))
		for i, v := range n.Vals {
			c.Vals[i] = strings.Clone(v)
		}
	}
	for _, ch := range n.Nodes {
		c.Nodes = append(c.Nodes, vfC15Copy(ch))
	}
	return c
}

// ---- independent well-formedness -------------------------------------------------------------------

func vfC15WellFormed(n *protocol.FilterNode) bool {
	switch n.Op {
	case "":
		switch n.Cmp {
		case "eq", "neq", "sw", "ew", "ct", "gt", "gte", "lt", "lte":
			return n.Val != "" && len(n.Vals) == 0 && n.Key != ""
		case "in", "nin":
			return len(n.Vals) > 0 && n.Val == "" && n.Key != ""
		case "ex", "nex":
			// the validator's own comment exempts ex/nex from the key requirement
			return n.Val == "" && len(n.Vals) == 0
		}
		return false
	case "and", "or":
		if len(n.Nodes) == 0 {
			return false
		}
		for _, c := range n.Nodes {
			if !vfC15WellFormed(c) {
				return false
			}
		}
		return true
	case "not":
		return len(n.Nodes) == 1 && vfC15WellFormed(n.Nodes[0])
	}
	return false
}

// ---- independent evaluator -------------------------------------------------------------------------

// vfC15Rat parses [+-]?digits[.digits] | [+-]?.digits | [+-]?digits. into an exact rational.
func vfC15Rat(s string) (*big.Rat, bool) {
	neg := false
	if strings.HasPrefix(s, "-") {
		neg = true
		s = s[1:]
	} else if strings.HasPrefix(s, "+") {
		s = s[1:]
	}
	ip, fp := s, ""
	if i := strings.IndexByte(s, '.'); i >= 0 {
		ip, fp = s[:i], s[i+1:]
	}
	if ip == "" && fp == "" {
		return nil, false
	}
	for _, ch := range ip + fp {
		if ch < '0' || ch > '9' {
			return nil, false
		}
	}
	num := new(big.Int)
	if _, ok := num.SetString("0"+ip+fp, 10); !ok {
		return nil, false
	}
	den := new(big.Int).Exp(big.NewInt(10), big.NewInt(int64(len(fp))), nil)
	r := new(big.Rat).SetFrac(num, den)
	if neg {
		r.Neg(r)
	}
	return r, true
}

type vfC15Eval struct {
	unmodelled int
	numericCmp int
	absentLeaf int
}

func (e *vfC15Eval) eval(n *protocol.FilterNode, tags map[string]string) bool {
	switch n.Op {
	case "and":
		r := true
		for _, c := range n.Nodes {
			if !e.eval(c, tags) {
				r = false
			}
		}
		return r
	case "or":
		r := false
		for _, c := range n.Nodes {
			if e.eval(c, tags) {
				r = true
			}
		}
		return r
	case "not":
		return !e.eval(n.Nodes[0], tags)
	}
	v, present := tags[n.Key]
	if !present {
		e.absentLeaf++
	}
	switch n.Cmp {
	case "eq":
		return present && v == n.Val
	case "neq":
		return !(present && v == n.Val)
	case "in":
		if !present {
			return false
		}
		for _, x := range n.Vals {
			if x == v {
				return true
			}
		}
		return false
	case "nin":
		if !present {
			return true
		}
		for _, x := range n.Vals {
			if x == v {
				return false
			}
		}
		return true
	case "ex":
		return present
	case "nex":
		return !present
	case "sw":
		return present && len(v) >= len(n.Val) && v[:len(n.Val)] == n.Val
	case "ew":
		return present && len(v) >= len(n.Val) && v[len(v)-len(n.Val):] == n.Val
	case "ct":
		return present && strings.Index(v, n.Val) >= 0
	case "gt", "gte", "lt", "lte":
		if !present {
			return false
		}
		_, e1 := udecimal.Parse(v)
		_, e2 := udecimal.Parse(n.Val)
		if e1 != nil || e2 != nil {
			return false // numerals the engine does not accept compare false
		}
		a, ok1 := vfC15Rat(v)
		b, ok2 := vfC15Rat(n.Val)
		if !ok1 || !ok2 {
			e.unmodelled++
			return false
		}
		e.numericCmp++
		c := a.Cmp(b)
		switch n.Cmp {
		case "gt":
			return c > 0
		case "gte":
			return c >= 0
		case "lt":
			return c < 0
		default:
			return c <= 0
		}
	}
	panic("oracle: unreachable cmp " + n.Cmp)
}

func vfC15Depth(n *protocol.FilterNode) int {
	d := 0
	for _, c := range n.Nodes {
		if x := vfC15Depth(c); x > d {
			d = x
		}
	}
	return d + 1
}

func TestVF_C15(t *testing.T) {
	vfCheck(t, "C15", func(rt *rapid.T, c *vfCase) string {
		illP := rapid.SampledFrom([]int{0, 0, 0, 12, 30}).Draw(rt, "illP")
		depth := rapid.IntRange(0, 4).Draw(rt, "depth")
		tree := vfC15Tree(rt, depth, "t", illP)
		ntags := rapid.IntRange(0, 4).Draw(rt, "ntags")
		tags := map[string]string{}
		var tagDesc []string
		for i := 0; i < ntags; i++ {
			k := rapid.SampledFrom(vfC15Keys).Draw(rt, fmt.Sprintf("tk%d", i))
			if i < 2 && rapid.Bool().Draw(rt, fmt.Sprintf("tknum%d", i)) {
				k = []string{"n", "m"}[i]
			}
			numeric := k == "n" || k == "m"
			v := vfC15Value(rt, fmt.Sprintf("tv%d", i), numeric)
			tags[k] = v
		}
		for _, k := range vfC15Keys {
			if v, ok := tags[k]; ok {
				tagDesc = append(tagDesc, fmt.Sprintf("%q:%q", k, v))
			}
		}
		var tagsArg map[string]string = tags
		if ntags == 0 && rapid.Bool().Draw(rt, "niltags") {
			tagsArg = nil
		}
		c.Describe(fmt.Sprintf("filter=%s tags={%s}", vfC15Render(tree), strings.Join(tagDesc, ",")))

		wf := vfC15WellFormed(tree)
		verr := Validate(tree)
		if wf {
			c.Label("wellformed")
		} else {
			c.Label("illformed")
		}
		if (verr == nil) != wf {
			return fmt.Sprintf("Validate=%v but independent well-formedness=%v", verr, wf)
		}
		// hash: structurally equal trees hash equal; stable; safe under concurrency
		h1 := Hash(tree)
		cp := vfC15Copy(tree)
		if h2 := Hash(cp); h1 != h2 {
			return "Hash differs for a deep copy of the tree"
		}
		if !wf {
			// Match on an ill-formed tree may error or not; it must not panic.
			_, _ = Match(tree, tagsArg)
			return ""
		}
		ev := &vfC15Eval{}
		want := ev.eval(tree, tags)
		got, err := Match(tree, tagsArg)
		if err != nil {
			return fmt.Sprintf("Match on a validated tree returned error: %v", err)
		}
		if ev.unmodelled > 0 {
			c.Label("numeral_accepted_but_unmodelled")
			c.Extra("unmodelled_numerals", ev.unmodelled)
			return ""
		}
		if ev.numericCmp > 0 {
			c.Label("numeric_comparison_evaluated")
		}
		if ev.absentLeaf > 0 {
			c.Label("leaf_on_absent_key")
		}
		if vfC15Depth(tree) >= 2 && (ev.absentLeaf > 0 || ev.numericCmp > 0) {
			c.Nontrivial(c.desc)
		}
		if got != want {
			return fmt.Sprintf("Match=%v, reference evaluator=%v", got, want)
		}
		// metamorphic: not(not x) == x ; De Morgan on and/or
		nn := &protocol.FilterNode{Op: "not", Nodes: []*protocol.FilterNode{{Op: "not", Nodes: []*protocol.FilterNode{tree}}}}
		if g, err := Match(nn, tagsArg); err != nil || g != got {
			return fmt.Sprintf("not(not x)=%v,%v but x=%v", g, err, got)
		}
		if tree.Op == "and" || tree.Op == "or" {
			dual := &protocol.FilterNode{Op: map[string]string{"and": "or", "or": "and"}[tree.Op]}
			for _, ch := range tree.Nodes {
				dual.Nodes = append(dual.Nodes, &protocol.FilterNode{Op: "not", Nodes: []*protocol.FilterNode{ch}})
			}
			if g, err := Match(&protocol.FilterNode{Op: "not", Nodes: []*protocol.FilterNode{dual}}, tagsArg); err != nil || g != got {
				return fmt.Sprintf("De Morgan dual gives %v,%v but tree gives %v", g, err, got)
			}
		}
		if h3 := Hash(tree); h3 != h1 {
			return "Hash not stable across calls"
		}
		return ""
	})
}

// Concurrent hashing of structurally equal trees (pool interplay).
func TestVF_C15_HashConcurrent(t *testing.T) {
	vfCheck(t, "C15", func(rt *rapid.T, c *vfCase) string {
		n := rapid.IntRange(2, 6).Draw(rt, "ntrees")
		trees := make([]*protocol.FilterNode, n)
		for i := range trees {
			trees[i] = vfC15Tree(rt, rapid.IntRange(0, 4).Draw(rt, "d"), fmt.Sprintf("t%d", i), 0)
		}
		c.Describe(fmt.Sprintf("concurrent hash of %d trees, first=%s", n, vfC15Render(trees[0])))
		c.Label("hash_concurrent")
		want := make([][32]byte, n)
		for i, tr := range trees {
			want[i] = Hash(tr)
		}
		var wg sync.WaitGroup
		bad := make(chan string, 64)
		for g := 0; g < 8; g++ {
			wg.Add(1)
			go func(g int) {
				defer wg.Done()
				for r := 0; r < 20; r++ {
					i := (g + r) % n
					if Hash(vfC15Copy(trees[i])) != want[i] {
						select {
						case bad <- fmt.Sprintf("hash of tree %d changed under concurrency", i):
						default:
						}
					}
				}
			}(g)
		}
		wg.Wait()
		select {
		case m := <-bad:
			return m
		default:
		}
		return ""
	})
}
