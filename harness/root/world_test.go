package PKGNAME

// Shared "world" harness for checks that drive a real Node with real Clients inside a synctest bubble.
// Everything here must be called from inside vfBubble. Lead-owned; checks add their own files.

import (
	"context"
	"encoding/json"
	"fmt"
	"sort"
	"strings"
	"sync"
	"sync/atomic"
	"time"

	"github.com/centrifugal/protocol"
)

// ---------------------------------------------------------------------------------------------------
// transport double

type vfFrame struct {
	Seq   int64         // world-global sequence number of the write
	At    time.Duration // virtual time since world start
	Raw   []byte
	Reply *protocol.Reply // decoded; for unidirectional transports Reply{Push: push}
	Err   error           // decode error (always a harness/library problem worth reporting)
}

type vfTransport struct {
	w            *vfWorld
	name         string
	proto        ProtocolType
	uni          bool
	emulation    bool
	disabledPush uint64
	pingPong     PingPongConfig

	mu         sync.Mutex
	frames     []vfFrame
	closed     bool
	closeCount int
	closeDisc  Disconnect
	writeErr   error         // injected write error (returned by Write/WriteMany when set)
	writeGate  chan struct{} // when non-nil every Write blocks until it is closed (durably blocked for synctest)
	inWrite    int
	closeCh    chan struct{}
}

func (t *vfTransport) Name() string                   { return t.name }
// AcceptProtocol passes the gate "accept:<name>" (a no-op unless a check armed it): with
// Config.Metrics.ExposeTransportAcceptProtocol the library calls it inside Node.addClient, right before hub.add.
func (t *vfTransport) AcceptProtocol() string {
	if t.w != nil && t.w.Gates != nil {
		t.w.Gates.Pass("accept:" + t.name)
	}
	return ""
}
func (t *vfTransport) Protocol() ProtocolType         { return t.proto }
func (t *vfTransport) ProtocolVersion() ProtocolVersion { return ProtocolVersion2 }
func (t *vfTransport) Unidirectional() bool           { return t.uni }
func (t *vfTransport) Emulation() bool                { return t.emulation }
// DisabledPushFlags is the one transport call the publication delivery path makes between releasing and re-taking
// Client.mu; checks may park a delivery there with Gates.Arm("dpf:<conn name>", 1) (no-op unless armed).
func (t *vfTransport) DisabledPushFlags() uint64 {
	t.w.Gates.Pass("dpf:" + t.name)
	return t.disabledPush
}
func (t *vfTransport) PingPongConfig() PingPongConfig { return t.pingPong }

func vfDecodeFrame(proto ProtocolType, uni bool, raw []byte) (*protocol.Reply, error) {
	if uni {
		var p protocol.Push
		var err error
		if proto == ProtocolTypeJSON {
			err = json.Unmarshal(raw, &p)
		} else {
			err = p.UnmarshalVT(raw)
		}
		if err != nil {
			return nil, err
		}
		return &protocol.Reply{Push: &p}, nil
	}
	var r protocol.Reply
	var err error
	if proto == ProtocolTypeJSON {
		err = json.Unmarshal(raw, &r)
	} else {
		err = r.UnmarshalVT(raw)
	}
	if err != nil {
		return nil, err
	}
	return &r, nil
}

func (t *vfTransport) record(data []byte) {
	cp := append([]byte(nil), data...)
	rep, err := vfDecodeFrame(t.proto, t.uni, cp)
	f := vfFrame{Seq: t.w.seq.Add(1), At: time.Since(t.w.start), Raw: cp, Reply: rep, Err: err}
	t.frames = append(t.frames, f)
}

func (t *vfTransport) gate() (chan struct{}, error) {
	t.mu.Lock()
	defer t.mu.Unlock()
	if t.closed {
		return nil, fmt.Errorf("vf: transport closed")
	}
	if t.writeErr != nil {
		return nil, t.writeErr
	}
	return t.writeGate, nil
}

func (t *vfTransport) Write(data []byte) error {
	return t.WriteMany(data)
}

func (t *vfTransport) WriteMany(data ...[]byte) error {
	g, err := t.gate()
	if err != nil {
		return err
	}
	t.w.Gates.Pass("write:" + t.name)
	if g != nil {
		select {
		case <-g:
		case <-t.closeCh:
			return fmt.Errorf("vf: transport closed")
		}
	}
	t.mu.Lock()
	defer t.mu.Unlock()
	if t.closed {
		return fmt.Errorf("vf: transport closed")
	}
	for _, d := range data {
		t.record(d)
	}
	return nil
}

func (t *vfTransport) Close(d Disconnect) error {
	t.mu.Lock()
	defer t.mu.Unlock()
	t.closeCount++
	if !t.closed {
		t.closed = true
		t.closeDisc = d
		close(t.closeCh)
	}
	return nil
}

func (t *vfTransport) Frames() []vfFrame {
	t.mu.Lock()
	defer t.mu.Unlock()
	return append([]vfFrame(nil), t.frames...)
}

func (t *vfTransport) Closed() (bool, Disconnect) {
	t.mu.Lock()
	defer t.mu.Unlock()
	return t.closed, t.closeDisc
}

// SetWriteGate installs (or with nil removes) a gate; returns the previous gate.
func (t *vfTransport) SetWriteGate(g chan struct{}) {
	t.mu.Lock()
	t.writeGate = g
	t.mu.Unlock()
}

func (t *vfTransport) SetWriteErr(err error) {
	t.mu.Lock()
	t.writeErr = err
	t.mu.Unlock()
}

// ---------------------------------------------------------------------------------------------------
// broker proxy with gates and PUB/SUB fault injection

type vfDelivery struct {
	Kind     string // "pub" | "join" | "leave"
	Ch       string
	Pub      *Publication
	SP       StreamPosition
	UseDelta bool
	PrevPub  *Publication
	Info     *ClientInfo
}

type vfFault int

const (
	vfDeliver vfFault = iota
	vfDrop
	vfDup
	vfHold
	vfDupHold // deliver now and hold a second copy (a delayed re-delivery)
)

type vfBrokerProxy struct {
	w     *vfWorld
	inner Broker
	h     BrokerEventHandler

	mu   sync.Mutex
	held []vfDelivery
	// Fault decides what happens to a delivery from the inner broker (nil = deliver).
	Fault func(d vfDelivery) vfFault
	// Hook, when set, is called before (phase "before") and after (phase "after") each proxied broker call.
	// It may block (gate). op ∈ subscribe, unsubscribe, publish, publish_join, publish_leave, history, remove_history.
	// A non-nil error returned in phase "before" is returned to the caller without calling the inner broker.
	Hook func(op, phase, ch string) error
	Log  []string // "subscribe ch" / "unsubscribe ch" in call order (successful calls only)
	// OnDeliver, when set, is called right before a delivery is handed to the node's BrokerEventHandler.
	OnDeliver func(d vfDelivery)
}

var _ Broker = (*vfBrokerProxy)(nil)

func (b *vfBrokerProxy) hook(op, phase, ch string) error {
	b.mu.Lock()
	h := b.Hook
	b.mu.Unlock()
	if h == nil {
		return nil
	}
	return h(op, phase, ch)
}

func (b *vfBrokerProxy) RegisterBrokerEventHandler(h BrokerEventHandler) error {
	b.h = h
	return b.inner.RegisterBrokerEventHandler(b)
}

func (b *vfBrokerProxy) Close(ctx context.Context) error {
	if c, ok := b.inner.(Closer); ok {
		return c.Close(ctx)
	}
	return nil
}

func (b *vfBrokerProxy) Subscribe(chs ...string) error {
	for _, ch := range chs {
		if err := b.hook("subscribe", "before", ch); err != nil {
			return err
		}
	}
	err := b.inner.Subscribe(chs...)
	if err == nil {
		b.mu.Lock()
		for _, ch := range chs {
			b.Log = append(b.Log, "subscribe "+ch)
		}
		b.mu.Unlock()
	}
	for _, ch := range chs {
		_ = b.hook("subscribe", "after", ch)
	}
	return err
}

func (b *vfBrokerProxy) Unsubscribe(chs ...string) error {
	for _, ch := range chs {
		if err := b.hook("unsubscribe", "before", ch); err != nil {
			return err
		}
	}
	err := b.inner.Unsubscribe(chs...)
	if err == nil {
		b.mu.Lock()
		for _, ch := range chs {
			b.Log = append(b.Log, "unsubscribe "+ch)
		}
		b.mu.Unlock()
	}
	for _, ch := range chs {
		_ = b.hook("unsubscribe", "after", ch)
	}
	return err
}

func (b *vfBrokerProxy) Publish(ch string, data []byte, opts PublishOptions) (PublishResult, error) {
	if err := b.hook("publish", "before", ch); err != nil {
		return PublishResult{}, err
	}
	r, err := b.inner.Publish(ch, data, opts)
	_ = b.hook("publish", "after", ch)
	return r, err
}

func (b *vfBrokerProxy) PublishJoin(ch string, info *ClientInfo) error {
	if err := b.hook("publish_join", "before", ch); err != nil {
		return err
	}
	err := b.inner.PublishJoin(ch, info)
	_ = b.hook("publish_join", "after", ch)
	return err
}

func (b *vfBrokerProxy) PublishLeave(ch string, info *ClientInfo) error {
	if err := b.hook("publish_leave", "before", ch); err != nil {
		return err
	}
	err := b.inner.PublishLeave(ch, info)
	_ = b.hook("publish_leave", "after", ch)
	return err
}

func (b *vfBrokerProxy) History(ch string, opts HistoryOptions) ([]*Publication, StreamPosition, error) {
	if err := b.hook("history", "before", ch); err != nil {
		return nil, StreamPosition{}, err
	}
	p, sp, err := b.inner.History(ch, opts)
	_ = b.hook("history", "after", ch)
	return p, sp, err
}

func (b *vfBrokerProxy) RemoveHistory(ch string) error {
	if err := b.hook("remove_history", "before", ch); err != nil {
		return err
	}
	err := b.inner.RemoveHistory(ch)
	_ = b.hook("remove_history", "after", ch)
	return err
}

func (b *vfBrokerProxy) deliver(d vfDelivery) error {
	b.mu.Lock()
	od := b.OnDeliver
	b.mu.Unlock()
	if od != nil {
		od(d)
	}
	switch d.Kind {
	case "pub":
		return b.h.HandlePublication(d.Ch, d.Pub, d.SP, d.UseDelta, d.PrevPub)
	case "join":
		return b.h.HandleJoin(d.Ch, d.Info)
	default:
		return b.h.HandleLeave(d.Ch, d.Info)
	}
}

func (b *vfBrokerProxy) route(d vfDelivery) error {
	b.mu.Lock()
	f := b.Fault
	b.mu.Unlock()
	act := vfDeliver
	if f != nil {
		act = f(d)
	}
	switch act {
	case vfDrop:
		return nil
	case vfDup:
		_ = b.deliver(d)
		return b.deliver(d)
	case vfHold:
		b.mu.Lock()
		b.held = append(b.held, d)
		b.mu.Unlock()
		return nil
	case vfDupHold:
		b.mu.Lock()
		b.held = append(b.held, d)
		b.mu.Unlock()
	}
	return b.deliver(d)
}

func (b *vfBrokerProxy) HandlePublication(ch string, pub *Publication, sp StreamPosition, useDelta bool, prevPub *Publication) error {
	return b.route(vfDelivery{Kind: "pub", Ch: ch, Pub: pub, SP: sp, UseDelta: useDelta, PrevPub: prevPub})
}

func (b *vfBrokerProxy) HandleJoin(ch string, info *ClientInfo) error {
	return b.route(vfDelivery{Kind: "join", Ch: ch, Info: info})
}

func (b *vfBrokerProxy) HandleLeave(ch string, info *ClientInfo) error {
	return b.route(vfDelivery{Kind: "leave", Ch: ch, Info: info})
}

// NumHeld returns the number of held deliveries.
func (b *vfBrokerProxy) NumHeld() int {
	b.mu.Lock()
	defer b.mu.Unlock()
	return len(b.held)
}

// ReleaseHeld delivers the i-th held delivery (index modulo count); returns false if none is held.
func (b *vfBrokerProxy) ReleaseHeld(i int) bool {
	b.mu.Lock()
	if len(b.held) == 0 {
		b.mu.Unlock()
		return false
	}
	i = i % len(b.held)
	d := b.held[i]
	b.held = append(b.held[:i:i], b.held[i+1:]...)
	b.mu.Unlock()
	_ = b.deliver(d)
	return true
}

// BrokerSubscribed computes from the call log whether the node is currently broker-subscribed to ch.
func (b *vfBrokerProxy) BrokerSubscribed(ch string) bool {
	b.mu.Lock()
	defer b.mu.Unlock()
	sub := false
	for _, l := range b.Log {
		if l == "subscribe "+ch {
			sub = true
		} else if l == "unsubscribe "+ch {
			sub = false
		}
	}
	return sub
}

// ---------------------------------------------------------------------------------------------------
// world

type vfEvent struct {
	Seq    int64
	At     time.Duration
	Client string
	Kind   string // connecting, connect, disconnect, subscribe, unsubscribe, alive, refresh, subrefresh, publish, ...
	Ch     string
	Detail string
}

type vfWorld struct {
	node   *Node
	broker *vfBrokerProxy
	start  time.Time
	seq    atomic.Int64

	mu     sync.Mutex
	events []vfEvent
	conns  map[string]*vfConn // by client id

	// Gates are named blocking points; transports pass "write:<conn name>" before each write.
	Gates *vfGates

	// ChanOpts supplies SubscribeOptions for client-side subscribes handled by the default OnSubscribe handler.
	ChanOpts func(c *vfConn, e SubscribeEvent) (SubscribeReply, error)
	// OnSubscribe, when set, replaces the default subscribe handler completely (may call cb asynchronously).
	OnSubscribe func(c *vfConn, e SubscribeEvent, cb SubscribeCallback)
	// Connecting, when set, supplies the ConnectReply (default: credentials with the conn's user).
	Connecting func(c *vfConn, e ConnectEvent) (ConnectReply, error)
	// PerClient, when set, is called from OnConnect to install extra handlers.
	PerClient func(c *vfConn, client *Client)
}

func (w *vfWorld) logEvent(client, kind, ch, detail string) {
	e := vfEvent{Seq: w.seq.Add(1), At: time.Since(w.start), Client: client, Kind: kind, Ch: ch, Detail: detail}
	w.mu.Lock()
	w.events = append(w.events, e)
	w.mu.Unlock()
}

func (w *vfWorld) Events() []vfEvent {
	w.mu.Lock()
	defer w.mu.Unlock()
	return append([]vfEvent(nil), w.events...)
}

func (w *vfWorld) connByID(id string) *vfConn {
	w.mu.Lock()
	defer w.mu.Unlock()
	return w.conns[id]
}

// vfNewWorld creates and runs a Node (memory engines) whose stream broker is wrapped by vfBrokerProxy.
// pre, when non-nil, runs after New and before Run (to set handlers / swap engines).
func vfNewWorld(cfg Config, pre func(w *vfWorld)) (*vfWorld, error) {
	if cfg.LogHandler == nil {
		cfg.LogLevel = LogLevelNone
	}
	// A check may pass its own LogHandler (+ LogLevel): log entries are a plug-in boundary too and can serve as
	// gates at points that have no other interface call (e.g. "client subscribed to channel" after the recovery
	// buffer was locked, or the trace entry written just before a push is encoded).
	n, err := New(cfg)
	if err != nil {
		return nil, err
	}
	w := &vfWorld{node: n, start: time.Now(), conns: map[string]*vfConn{}, Gates: vfNewGates()}
	w.broker = &vfBrokerProxy{w: w, inner: n.broker}
	n.SetBroker(w.broker)
	n.OnConnecting(func(ctx context.Context, e ConnectEvent) (ConnectReply, error) {
		c := w.connByID(e.ClientID)
		w.logEvent(e.ClientID, "connecting", "", "")
		if c == nil {
			return ConnectReply{}, DisconnectServerError
		}
		if w.Connecting != nil {
			return w.Connecting(c, e)
		}
		return ConnectReply{Credentials: &Credentials{UserID: c.User}}, nil
	})
	n.OnConnect(func(client *Client) {
		c := w.connByID(client.ID())
		w.logEvent(client.ID(), "connect", "", "")
		client.OnSubscribe(func(e SubscribeEvent, cb SubscribeCallback) {
			w.logEvent(client.ID(), "subscribe", e.Channel, "")
			if w.OnSubscribe != nil {
				w.OnSubscribe(c, e, cb)
				return
			}
			if w.ChanOpts != nil {
				cb(w.ChanOpts(c, e))
				return
			}
			cb(SubscribeReply{}, nil)
		})
		client.OnUnsubscribe(func(e UnsubscribeEvent) {
			w.logEvent(client.ID(), "unsubscribe", e.Channel, fmt.Sprintf("code=%d serverSide=%v", e.Code, e.ServerSide))
		})
		client.OnDisconnect(func(e DisconnectEvent) {
			w.logEvent(client.ID(), "disconnect", "", fmt.Sprintf("code=%d", e.Code))
		})
		client.OnAlive(func() {
			w.logEvent(client.ID(), "alive", "", "")
		})
		if w.PerClient != nil {
			w.PerClient(c, client)
		}
	})
	if pre != nil {
		pre(w)
	}
	if err := n.Run(); err != nil {
		return nil, err
	}
	return w, nil
}

// Close shuts the node down; call before leaving the bubble (after releasing every gate).
func (w *vfWorld) Close() {
	w.Gates.ReleaseAll()
	_ = w.node.Shutdown(context.Background())
	// Virtual time stops once the bubble's main goroutine returns, so let deferred work (dissolver jobs sleep 1 s
	// before a broker unsubscribe, close goroutines, writer timers) run to completion here.
	for i := 0; i < 4; i++ {
		time.Sleep(3 * time.Second)
		vfSettle()
	}
}

// ---------------------------------------------------------------------------------------------------
// connection wrapper

type vfConnCfg struct {
	Name         string
	User         string
	Proto        ProtocolType // default JSON
	Uni          bool
	Emulation    bool // bidirectional emulation transport: the connection gets a session id
	DisabledPush uint64
	PingPong     PingPongConfig // zero → pings disabled (-1) to keep frames deterministic unless a check wants them
	KeepPing     bool           // when true PingPong is passed through unchanged
}

type vfConn struct {
	w      *vfWorld
	Name   string
	User   string
	Client *Client
	T      *vfTransport
	cancel context.CancelFunc
	closeF ClientCloseFunc
	nextID uint32
}

func (w *vfWorld) NewConn(cc vfConnCfg) *vfConn {
	if cc.Proto == "" {
		cc.Proto = ProtocolTypeJSON
	}
	pp := cc.PingPong
	if !cc.KeepPing {
		pp = PingPongConfig{PingInterval: -1, PongTimeout: -1}
	}
	t := &vfTransport{w: w, name: cc.Name, proto: cc.Proto, uni: cc.Uni, emulation: cc.Emulation, disabledPush: cc.DisabledPush,
		pingPong: pp, closeCh: make(chan struct{})}
	ctx, cancel := context.WithCancel(context.Background())
	client, closeF, err := NewClient(ctx, w.node, t)
	if err != nil {
		panic(err)
	}
	c := &vfConn{w: w, Name: cc.Name, User: cc.User, Client: client, T: t, cancel: cancel, closeF: closeF}
	w.mu.Lock()
	w.conns[client.ID()] = c
	w.mu.Unlock()
	return c
}

func (c *vfConn) NextID() uint32 {
	return atomic.AddUint32(&c.nextID, 1)
}

// Cmd feeds one command (synchronously, on the caller's goroutine) exactly like a transport read loop would.
func (c *vfConn) Cmd(cmd *protocol.Command) bool {
	return c.Client.HandleCommand(cmd, 0)
}

// Connect sends a connect command (bidirectional) or performs the unidirectional connect.
func (c *vfConn) Connect(req *protocol.ConnectRequest) {
	if req == nil {
		req = &protocol.ConnectRequest{}
	}
	if c.T.uni {
		c.Client.ProtocolConnect(req)
		return
	}
	c.Cmd(&protocol.Command{Id: c.NextID(), Connect: req})
}

// TransportClose emulates the transport noticing a closed connection (what handlers do on read error).
func (c *vfConn) TransportClose() {
	_ = c.closeF()
	c.cancel()
}

func (c *vfConn) Frames() []vfFrame { return c.T.Frames() }

// ---------------------------------------------------------------------------------------------------
// rendering helpers

func vfRenderReply(r *protocol.Reply) string {
	if r == nil {
		return "<undecodable>"
	}
	var sb strings.Builder
	if r.Id != 0 {
		fmt.Fprintf(&sb, "#%d ", r.Id)
	}
	if r.Error != nil {
		fmt.Fprintf(&sb, "error(%d %s) ", r.Error.Code, r.Error.Message)
	}
	switch {
	case r.Push != nil:
		p := r.Push
		switch {
		case p.Pub != nil:
			fmt.Fprintf(&sb, "push.pub[%s off=%d delta=%v data=%q]", p.Channel, p.Pub.Offset, p.Pub.Delta, vfTrunc(string(p.Pub.Data), 40))
		case p.Join != nil:
			fmt.Fprintf(&sb, "push.join[%s %s]", p.Channel, p.Join.Info.GetClient())
		case p.Leave != nil:
			fmt.Fprintf(&sb, "push.leave[%s %s]", p.Channel, p.Leave.Info.GetClient())
		case p.Unsubscribe != nil:
			fmt.Fprintf(&sb, "push.unsubscribe[%s code=%d]", p.Channel, p.Unsubscribe.Code)
		case p.Subscribe != nil:
			fmt.Fprintf(&sb, "push.subscribe[%s off=%d epoch=%s recovered=%v npubs=%d]", p.Channel, p.Subscribe.Offset, p.Subscribe.Epoch, false, 0)
		case p.Disconnect != nil:
			fmt.Fprintf(&sb, "push.disconnect[code=%d]", p.Disconnect.Code)
		case p.Connect != nil:
			fmt.Fprintf(&sb, "push.connect[subs=%d]", len(p.Connect.Subs))
		case p.Message != nil:
			fmt.Fprintf(&sb, "push.message")
		case p.Refresh != nil:
			fmt.Fprintf(&sb, "push.refresh")
		default:
			fmt.Fprintf(&sb, "push.empty(ping)")
		}
	case r.Connect != nil:
		chs := make([]string, 0, len(r.Connect.Subs))
		for ch := range r.Connect.Subs {
			chs = append(chs, ch)
		}
		sort.Strings(chs)
		fmt.Fprintf(&sb, "connect[subs=%v]", chs)
	case r.Subscribe != nil:
		offs := []uint64{}
		for _, p := range r.Subscribe.Publications {
			offs = append(offs, p.Offset)
		}
		fmt.Fprintf(&sb, "subscribe[off=%d epoch=%s recovered=%v was=%v pubs=%v]", r.Subscribe.Offset, r.Subscribe.Epoch, r.Subscribe.Recovered, r.Subscribe.WasRecovering, offs)
	case r.Unsubscribe != nil:
		sb.WriteString("unsubscribe")
	case r.Publish != nil:
		sb.WriteString("publish")
	case r.History != nil:
		fmt.Fprintf(&sb, "history[n=%d off=%d]", len(r.History.Publications), r.History.Offset)
	case r.Presence != nil:
		fmt.Fprintf(&sb, "presence[n=%d]", len(r.Presence.Presence))
	case r.PresenceStats != nil:
		sb.WriteString("presence_stats")
	case r.Rpc != nil:
		sb.WriteString("rpc")
	case r.Refresh != nil:
		sb.WriteString("refresh")
	case r.SubRefresh != nil:
		sb.WriteString("sub_refresh")
	case r.Ping != nil:
		sb.WriteString("ping")
	default:
		if r.Error == nil {
			sb.WriteString("empty")
		}
	}
	return sb.String()
}

func vfRenderFrames(fs []vfFrame) string {
	parts := make([]string, 0, len(fs))
	for _, f := range fs {
		if f.Err != nil {
			parts = append(parts, fmt.Sprintf("<decode error %v: %q>", f.Err, vfTrunc(string(f.Raw), 60)))
			continue
		}
		parts = append(parts, vfRenderReply(f.Reply))
	}
	return strings.Join(parts, " | ")
}

// ---------------------------------------------------------------------------------------------------
// named gates (a goroutine blocked in Pass is durably blocked for synctest)

type vfGates struct {
	mu      sync.Mutex
	armed   map[string]int
	waiting map[string][]chan struct{}
	passed  map[string]int
}

func vfNewGates() *vfGates {
	return &vfGates{armed: map[string]int{}, waiting: map[string][]chan struct{}{}, passed: map[string]int{}}
}

// Arm makes the next n Pass(name) calls block until released.
func (g *vfGates) Arm(name string, n int) {
	g.mu.Lock()
	g.armed[name] += n
	g.mu.Unlock()
}

func (g *vfGates) Disarm(name string) {
	g.mu.Lock()
	g.armed[name] = 0
	g.mu.Unlock()
}

// Pass blocks if the gate is armed.
func (g *vfGates) Pass(name string) {
	g.mu.Lock()
	g.passed[name]++
	if g.armed[name] <= 0 {
		g.mu.Unlock()
		return
	}
	g.armed[name]--
	ch := make(chan struct{})
	g.waiting[name] = append(g.waiting[name], ch)
	g.mu.Unlock()
	<-ch
}

// Waiting reports how many goroutines are parked at the gate.
func (g *vfGates) Waiting(name string) int {
	g.mu.Lock()
	defer g.mu.Unlock()
	return len(g.waiting[name])
}

// Release lets one parked goroutine continue; false if none is parked.
func (g *vfGates) Release(name string) bool {
	g.mu.Lock()
	defer g.mu.Unlock()
	w := g.waiting[name]
	if len(w) == 0 {
		return false
	}
	close(w[0])
	g.waiting[name] = w[1:]
	return true
}

// ReleaseAll disarms every gate and releases every parked goroutine.
func (g *vfGates) ReleaseAll() {
	g.mu.Lock()
	defer g.mu.Unlock()
	for k := range g.armed {
		g.armed[k] = 0
	}
	for k, w := range g.waiting {
		for _, ch := range w {
			close(ch)
		}
		g.waiting[k] = nil
	}
}

// AnyWaiting returns the names of gates with parked goroutines (sorted).
func (g *vfGates) AnyWaiting() []string {
	g.mu.Lock()
	defer g.mu.Unlock()
	var out []string
	for k, w := range g.waiting {
		if len(w) > 0 {
			out = append(out, k)
		}
	}
	sort.Strings(out)
	return out
}
