package PKGNAME

// C01 — Positioned stream delivery is gap-free, duplicate-free and ordered.
// A subject connection subscribes (positioned / recoverable) while a schedule of publishes, PUB/SUB faults
// (drop, duplicate, hold + release in any order), gate releases, time advances, history removal and unsubscribes
// runs. The subscribe can be paused right after its history read (publications then land in the recovery buffer)
// and at the reply write (buffer locked). Oracle: invariants over the subject's ordered frames.

import (
	"sync"
	"sync/atomic"
	"fmt"
	"os"
	"runtime"
	"strings"
	"testing"
	"time"

	"github.com/centrifugal/protocol"
	"pgregory.net/rapid"
)

type vfC01Step struct {
	Kind    int // 0 publish, 1 release held, 2 subscribe, 3 release gate, 4 unsubscribe, 5 advance, 6 remove history, 7 position check (advance 45s)
	Fault   int // publish: 0 deliver, 1 hold, 2 drop, 3 dup, 4 deliver + hold a second copy
	Tags    map[string]string
	Idx     int
	Recover bool
	OffPick int // >= 0: offset picked modulo top+3; -1: the position a protocol-following client holds; -2: top - OffBack
	OffBack int
	Epoch   int // 0 current known, 1 stale/random, 2 empty
	GateH   bool
	GateW   bool
	GateP   bool
	Adv     int
}

type vfC01Case struct {
	HistSize    int
	MetaTTL     int // seconds; 0 = default
	Recovery    bool
	Mode        int // 0 client-side command, 1 server-side Client.Subscribe, 2 connect-time server-side
	Proto       ProtocolType
	RWQ         bool // ReplyWithoutQueue
	Presence    bool
	ServerTF    *vfTF
	ClientTF    *vfTF
	MaxLagSec   int
	PrePubs     int
	Steps       []vfC01Step
}

func (s vfC01Step) String() string {
	switch s.Kind {
	case 0:
		return fmt.Sprintf("pub(%s %s)", []string{"deliver", "hold", "drop", "dup", "dup+hold"}[s.Fault], vfTagsStr(s.Tags))
	case 1:
		return fmt.Sprintf("releaseHeld(%d)", s.Idx)
	case 2:
		op := fmt.Sprint(s.OffPick)
		if s.OffPick == -2 {
			op = fmt.Sprintf("top-%d", s.OffBack)
		}
		return fmt.Sprintf("subscribe(recover=%v offPick=%s epoch=%d gateAfterHistory=%v gateWrite=%v gatePresence=%v)", s.Recover, op, s.Epoch, s.GateH, s.GateW, s.GateP)
	case 3:
		return "releaseGate"
	case 4:
		return "unsubscribe"
	case 5:
		return fmt.Sprintf("adv(%ds)", s.Adv)
	case 6:
		return "removeHistory"
	}
	return "positionCheck(adv 45s)"
}

func (c vfC01Case) String() string {
	st := make([]string, len(c.Steps))
	for i, s := range c.Steps {
		st[i] = s.String()
	}
	return fmt.Sprintf("hist=%d meta=%ds recovery=%v mode=%d proto=%s rwq=%v presence=%v serverTF=%s clientTF=%s maxLag=%ds prePubs=%d steps=[%s]",
		c.HistSize, c.MetaTTL, c.Recovery, c.Mode, c.Proto, c.RWQ, c.Presence, c.ServerTF, c.ClientTF, c.MaxLagSec, c.PrePubs, strings.Join(st, " "))
}

func vfC01Gen(rt *rapid.T) vfC01Case {
	c := vfC01Case{}
	c.HistSize = rapid.IntRange(1, 8).Draw(rt, "hist")
	c.MetaTTL = rapid.SampledFrom([]int{0, 0, 0, 4}).Draw(rt, "meta")
	c.Recovery = rapid.Bool().Draw(rt, "recovery")
	c.Mode = rapid.SampledFrom([]int{0, 0, 0, 0, 1, 2}).Draw(rt, "mode")
	c.Proto = rapid.SampledFrom([]ProtocolType{ProtocolTypeJSON, ProtocolTypeProtobuf}).Draw(rt, "proto")
	c.RWQ = rapid.Bool().Draw(rt, "rwq")
	c.Presence = rapid.IntRange(0, 3).Draw(rt, "presence") == 0
	if rapid.IntRange(0, 2).Draw(rt, "filters") == 0 {
		c.ServerTF = vfTFGenOpt(rt, "stf")
		c.ClientTF = vfTFGenOpt(rt, "ctf")
	}
	c.MaxLagSec = rapid.SampledFrom([]int{0, 0, 3}).Draw(rt, "lag")
	c.PrePubs = rapid.IntRange(0, 5).Draw(rt, "prepubs")
	n := rapid.IntRange(3, 28).Draw(rt, "nsteps")
	tags := func() map[string]string {
		if c.ServerTF != nil || c.ClientTF != nil {
			return vfTagsGen(rt, "tags")
		}
		return nil
	}
	for i := 0; i < n; i++ {
		if i > 0 && rapid.IntRange(0, 7).Draw(rt, "phrase") == 0 {
			// Correlated phrase around one subscribe window: [a publication whose second copy is held] [unsubscribe]
			// subscribe(recover from top-d, parked after its history read) publications with a fault pattern
			// [release a held delivery] release the gate [more publications] [release a held delivery].
			if rapid.Bool().Draw(rt, "phPre") {
				c.Steps = append(c.Steps, vfC01Step{Kind: 0, Fault: rapid.SampledFrom([]int{4, 4, 1}).Draw(rt, "phPreFault"), Tags: tags()})
			}
			if rapid.Bool().Draw(rt, "phUnsub") {
				c.Steps = append(c.Steps, vfC01Step{Kind: 4})
			}
			c.Steps = append(c.Steps, vfC01Step{Kind: 2, Recover: rapid.IntRange(0, 4).Draw(rt, "phRecover") > 0, OffPick: -2,
				OffBack: rapid.SampledFrom([]int{0, 0, 0, 1, 2, 3}).Draw(rt, "phBack"), GateH: true})
			if rapid.IntRange(0, 2).Draw(rt, "phRelHeld0") == 0 {
				c.Steps = append(c.Steps, vfC01Step{Kind: 1, Idx: rapid.IntRange(0, 3).Draw(rt, "phIdx0")})
			}
			np := rapid.IntRange(0, 4).Draw(rt, "phPubs")
			for j := 0; j < np; j++ {
				f := 0
				if j == 0 || rapid.IntRange(0, 3).Draw(rt, "phFaulty") == 0 {
					f = rapid.SampledFrom([]int{0, 2, 2, 1, 3, 4, 4}).Draw(rt, "phFault")
				}
				c.Steps = append(c.Steps, vfC01Step{Kind: 0, Fault: f, Tags: tags()})
			}
			if rapid.IntRange(0, 2).Draw(rt, "phRelHeld1") == 0 {
				c.Steps = append(c.Steps, vfC01Step{Kind: 1, Idx: rapid.IntRange(0, 3).Draw(rt, "phIdx1")})
			}
			c.Steps = append(c.Steps, vfC01Step{Kind: 3})
			for j, na := 0, rapid.IntRange(0, 2).Draw(rt, "phAfter"); j < na; j++ {
				c.Steps = append(c.Steps, vfC01Step{Kind: 0, Fault: rapid.SampledFrom([]int{0, 0, 0, 2, 4}).Draw(rt, "phAfterFault"), Tags: tags()})
			}
			if rapid.Bool().Draw(rt, "phRelHeld2") {
				c.Steps = append(c.Steps, vfC01Step{Kind: 1, Idx: rapid.IntRange(0, 3).Draw(rt, "phIdx2")})
			}
			continue
		}
		k := rapid.SampledFrom([]int{0, 0, 0, 0, 0, 0, 1, 1, 2, 2, 3, 3, 4, 5, 5, 6, 7}).Draw(rt, "kind")
		s := vfC01Step{Kind: k}
		switch k {
		case 0:
			s.Fault = rapid.SampledFrom([]int{0, 0, 0, 0, 0, 0, 0, 0, 0, 0, 1, 1, 2, 3, 4}).Draw(rt, "fault")
			if c.ServerTF != nil || c.ClientTF != nil {
				s.Tags = vfTagsGen(rt, "tags")
			}
		case 1:
			s.Idx = rapid.IntRange(0, 3).Draw(rt, "idx")
		case 2:
			s.Recover = rapid.Bool().Draw(rt, "recover")
			s.OffPick = rapid.SampledFrom([]int{-1, -1, -1, 0, 1, 2, 3, 4, 5, 6, 7, 8, 9, 10}).Draw(rt, "offPick")
			s.Epoch = rapid.SampledFrom([]int{0, 0, 0, 1, 2}).Draw(rt, "epoch")
			s.GateH = rapid.IntRange(0, 2).Draw(rt, "gateH") > 0
			s.GateW = rapid.IntRange(0, 2).Draw(rt, "gateW") == 0
			s.GateP = rapid.IntRange(0, 3).Draw(rt, "gateP") == 0
		case 5:
			s.Adv = rapid.SampledFrom([]int{1, 1, 2, 6}).Draw(rt, "adv")
		}
		if i == 0 {
			// every schedule starts with a subscribe so that the rest of it runs against a live or in-flight subscription
			s = vfC01Step{Kind: 2, Recover: rapid.Bool().Draw(rt, "recover0"), OffPick: rapid.IntRange(0, 10).Draw(rt, "offPick0"),
				GateH: rapid.IntRange(0, 2).Draw(rt, "gateH0") > 0, GateW: rapid.IntRange(0, 2).Draw(rt, "gateW0") == 0,
				GateP: rapid.IntRange(0, 3).Draw(rt, "gateP0") == 0}
		}
		c.Steps = append(c.Steps, s)
	}
	return c
}

type vfC01PubRec struct {
	Epoch string
	Off   uint64
	Data  string
	Tags  map[string]string
}

type vfC01Out struct {
	labels     []string
	nontrivial bool
	known      []string
	knownEx    string
}

type vfC01SubAttempt struct {
	epochAtStart string
	epochReset   bool   // the stream's epoch changed while this subscribe was in flight (parked at a gate)
	id        uint32 // command id (mode 0)
	recover   bool
	reqOffset uint64
	reqEpoch  string
	srvFailed atomic.Bool // Client.Subscribe returned an error: no subscribe push was sent for this attempt
}

func vfC01Run(t *testing.T, cs vfC01Case, out *vfC01Out, isKnown func(string) bool) string {
	return vfBubble(t, func() string {
		ch := "ch"
		cfg := Config{ClientChannelPositionMaxTimeLag: time.Duration(cs.MaxLagSec) * time.Second}
		w, err := vfNewWorld(cfg, nil)
		if err != nil {
			return "infra: " + err.Error()
		}
		defer w.Close()
		meta := time.Duration(cs.MetaTTL) * time.Second
		subOpts := SubscribeOptions{EnablePositioning: true, EnableRecovery: cs.Recovery, AllowTagsFilter: true,
			ServerTagsFilter: cs.ServerTF.Proto(), HistoryMetaTTL: meta, EmitPresence: cs.Presence}
		w.ChanOpts = func(c *vfConn, e SubscribeEvent) (SubscribeReply, error) {
			return SubscribeReply{Options: subOpts}, nil
		}
		var firstAttempt *vfC01SubAttempt // connect-time attempt (mode 2)
		w.Connecting = func(c *vfConn, e ConnectEvent) (ConnectReply, error) {
			r := ConnectReply{Credentials: &Credentials{UserID: c.User}, ReplyWithoutQueue: cs.RWQ}
			if cs.Mode == 2 {
				r.Subscriptions = map[string]SubscribeOptions{ch: subOpts}
			}
			return r, nil
		}
		gateH, gateP := false, false
		w.broker.Hook = func(op, phase, hch string) error {
			if op == "history" && phase == "after" && hch == ch && gateH {
				w.Gates.Pass("history")
			}
			return nil
		}
		pm := &vfC01Presence{inner: w.node.presenceManager, pass: func() {
			if gateP {
				w.Gates.Pass("presence")
			}
		}}
		w.node.SetPresenceManager(pm)

		// publish log
		var pubs []vfC01PubRec
		byKey := map[string]vfC01PubRec{}
		curEpoch := ""
		var staleEpoch string
		var top uint64
		nextFault := vfDeliver
		w.broker.Fault = func(d vfDelivery) vfFault {
			if d.Kind != "pub" {
				return vfDeliver
			}
			return nextFault
		}
		counter := 0
		var lastAttemptP **vfC01SubAttempt
		inWriteWindow := false
		faults, bufferedDuringSub, trimOrReset := 0, 0, false
		faultOf := func(i int) vfFault { return []vfFault{vfDeliver, vfHold, vfDrop, vfDup, vfDupHold}[i] }
		publish := func(f vfFault, tags map[string]string) string {
			counter++
			data := fmt.Sprintf(`{"n":%d}`, counter)
			nextFault = f
			res, err := w.node.Publish(ch, []byte(data), WithHistory(cs.HistSize, 120*time.Second, meta), WithTags(tags))
			nextFault = vfDeliver
			if err != nil {
				return "publish error: " + err.Error()
			}
			if res.Epoch != curEpoch {
				if curEpoch != "" {
					staleEpoch = curEpoch
					trimOrReset = true
				}
				curEpoch = res.Epoch
				if lastAttemptP != nil && *lastAttemptP != nil && (len(w.Gates.AnyWaiting()) > 0 || inWriteWindow) {
					(*lastAttemptP).epochReset = true
				}
			}
			top = res.Offset
			rec := vfC01PubRec{Epoch: res.Epoch, Off: res.Offset, Data: data, Tags: tags}
			pubs = append(pubs, rec)
			byKey[fmt.Sprintf("%s/%d", res.Epoch, res.Offset)] = rec
			if f != vfDeliver {
				faults++
			}
			return ""
		}
		for i := 0; i < cs.PrePubs; i++ {
			if m := publish(vfDeliver, nil); m != "" {
				return m
			}
		}

		conn := w.NewConn(vfConnCfg{Name: "s", User: "u", Proto: cs.Proto})
		// log of what the PUB/SUB layer actually handed to this node (after faults), with the number of frames the
		// subject had been sent at that moment
		type nodeDelivery struct {
			off      uint64
			epoch    string
			frames   int
			inflight bool // a subscribe was parked at a gate / in its reply write
			lagMs    int64
		}
		var delMu sync.Mutex
		var deliveries []nodeDelivery
		w.broker.OnDeliver = func(d vfDelivery) {
			if d.Kind != "pub" || d.Ch != ch || d.Pub == nil {
				return
			}
			nd := nodeDelivery{off: d.Pub.Offset, epoch: d.SP.Epoch, frames: len(conn.Frames()), inflight: len(w.Gates.AnyWaiting()) > 0 || inWriteWindow}
			if d.Pub.Time > 0 {
				nd.lagMs = time.Now().UnixMilli() - d.Pub.Time
			}
			if nd.inflight && curEpoch != "" && d.SP.Epoch != curEpoch && lastAttemptP != nil && *lastAttemptP != nil {
				// A delivery of another epoch (a held one from before a reset, or the first one after a reset) reaches the
				// node while a subscribe is between its history read and the buffer release: buffered publications carry no
				// epoch, so this is the window of the known finding "epoch reset inside the subscribe window".
				(*lastAttemptP).epochReset = true
			}
			delMu.Lock()
			deliveries = append(deliveries, nd)
			delMu.Unlock()
		}
		attempts := map[uint32]*vfC01SubAttempt{}
		var serverAttempts []*vfC01SubAttempt // in order (modes 1,2): matched with subscribe pushes / connect reply
		var lastAttempt *vfC01SubAttempt
		lastAttemptP = &lastAttempt
		clientPos := func() (uint64, string, bool) {
			var off uint64
			var ep string
			have := false
			for _, f := range conn.Frames() {
				if f.Err != nil || f.Reply == nil {
					continue
				}
				r := f.Reply
				var res *protocol.SubscribeResult
				if r.Subscribe != nil && r.Error == nil {
					res = r.Subscribe
				} else if r.Connect != nil && r.Connect.Subs[ch] != nil {
					res = r.Connect.Subs[ch]
				}
				if res != nil {
					off, ep, have = res.Offset, res.Epoch, true
					for _, p := range res.Publications {
						off = p.Offset
					}
				}
				if r.Push != nil && r.Push.Channel == ch {
					if r.Push.Subscribe != nil {
						off, ep, have = r.Push.Subscribe.Offset, r.Push.Subscribe.Epoch, true
					}
					if r.Push.Pub != nil && have && r.Push.Pub.Offset > off {
						off = r.Push.Pub.Offset
					}
				}
			}
			return off, ep, have
		}
		mkAttempt := func(s vfC01Step) *vfC01SubAttempt {
			a := &vfC01SubAttempt{recover: s.Recover && cs.Recovery, epochAtStart: curEpoch}
			lastAttempt = a
			if a.recover && s.OffPick == -1 {
				// a protocol-following client: recover from the last position it saw
				if off, ep, ok := clientPos(); ok {
					a.reqOffset, a.reqEpoch = off, ep
					return a
				}
				s.OffPick = 0
			}
			if a.recover && s.OffPick == -2 {
				a.reqOffset = 0
				if top > uint64(s.OffBack) {
					a.reqOffset = top - uint64(s.OffBack)
				}
				a.reqEpoch = curEpoch
				return a
			}
			if a.recover {
				a.reqOffset = uint64(s.OffPick) % (top + 3)
				switch s.Epoch {
				case 0:
					a.reqEpoch = curEpoch
				case 1:
					a.reqEpoch = "STALE"
					if staleEpoch != "" {
						a.reqEpoch = staleEpoch
					}
				}
			}
			return a
		}
		connected := false
		subInFlight := false // a subscribe goroutine may be parked at a gate
		pendingWriteGate := false
		var inflight []chan struct{}
		waitInflight := func() {
			if pendingWriteGate && len(inflight) > 0 {
				// The subscribe may park inside its reply write holding the connection's write mutex; if the writer
				// goroutine has a push to write at that moment it blocks on that mutex (not durably) and
				// synctest.Wait would never return. Spin (bounded) until the subscribe finished or parked at a gate.
				last := inflight[len(inflight)-1]
				for i := 0; i < 3000000; i++ {
					if len(w.Gates.AnyWaiting()) > 0 {
						return
					}
					select {
					case <-last:
						vfSettle()
						return
					default:
					}
					runtime.Gosched()
				}
				return
			}
			vfSettle()
		}
		armGates := func(s vfC01Step) {
			gateH, gateP = s.GateH, s.GateP && cs.Presence
			if gateH {
				w.Gates.Arm("history", 1)
			}
			if gateP {
				w.Gates.Arm("presence", 1)
			}
			if s.GateW && cs.RWQ && cs.Mode == 0 {
				pendingWriteGate = true
			}
		}
		doConnect := func(s *vfC01Step) {
			creq := &protocol.ConnectRequest{}
			if cs.Mode == 2 && s != nil {
				a := mkAttempt(*s)
				firstAttempt = a
				serverAttempts = append(serverAttempts, a)
				if a.recover {
					creq.Subs = map[string]*protocol.SubscribeRequest{ch: {Recover: true, Offset: a.reqOffset, Epoch: a.reqEpoch}}
				}
				armGates(*s)
				subInFlight = true
				done := make(chan struct{})
				inflight = append(inflight, done)
				go func() { defer close(done); conn.Connect(creq) }()
				waitInflight()
			} else {
				conn.Connect(creq)
			}
			connected = true
		}
		if cs.Mode != 2 {
			doConnect(nil)
		}
		isSubscribedOrPending := func() bool {
			conn.Client.mu.RLock()
			defer conn.Client.mu.RUnlock()
			_, ok := conn.Client.channels[ch]
			return ok
		}
		releaseGates := func() {
			for _, g := range []string{"history", "presence"} {
				for w.Gates.Release(g) {
				}
			}
			gateH, gateP = false, false
			vfSettle()
		}

		dbg := os.Getenv("VF_DEBUG") != ""
		for si := range cs.Steps {
			s := cs.Steps[si]
			if dbg {
				buf := -1
				fmt.Fprintf(os.Stderr, "DBG step %d %s top=%d held=%d waiting=%v frames=%d buf=%d\n", si, s, top, w.broker.NumHeld(), w.Gates.AnyWaiting(), len(conn.Frames()), buf)
			}
			switch s.Kind {
			case 0:
				if len(w.Gates.AnyWaiting()) > 0 {
					bufferedDuringSub++
				}
				if m := publish(faultOf(s.Fault), s.Tags); m != "" {
					return fmt.Sprintf("step %d: %s", si, m)
				}
			case 1:
				if w.broker.ReleaseHeld(s.Idx) {
					out.labels = append(out.labels, "held_released")
				}
			case 2:
				if subInFlight && len(w.Gates.AnyWaiting()) > 0 {
					continue // one subscribe at a time
				}
				if closed, _ := conn.T.Closed(); closed {
					continue
				}
				if !connected {
					doConnect(&s)
					continue
				}
				if isSubscribedOrPending() {
					continue
				}
				a := mkAttempt(s)
				armGates(s)
				subInFlight = true
				done := make(chan struct{})
				inflight = append(inflight, done)
				if cs.Mode == 0 {
					a.id = conn.NextID()
					attempts[a.id] = a
					req := &protocol.SubscribeRequest{Channel: ch, Recover: a.recover, Offset: a.reqOffset, Epoch: a.reqEpoch, Tf: cs.ClientTF.Proto()}
					if pendingWriteGate {
						w.Gates.Arm("write:s", 1)
					}
					go func() { defer close(done); conn.Cmd(&protocol.Command{Id: a.id, Subscribe: req}) }()
				} else {
					serverAttempts = append(serverAttempts, a)
					opts := []SubscribeOption{WithPositioning(true), WithRecovery(cs.Recovery), WithSubscribeHistoryMetaTTL(meta), WithEmitPresence(cs.Presence)}
					if cs.ServerTF != nil {
						tf := cs.ServerTF.Proto()
						opts = append(opts, func(o *SubscribeOptions) { o.ServerTagsFilter = tf })
					}
					if a.recover {
						opts = append(opts, WithRecoverSince(&StreamPosition{Offset: a.reqOffset, Epoch: a.reqEpoch}))
					}
					go func() {
						defer close(done)
						if err := conn.Client.Subscribe(ch, opts...); err != nil {
							a.srvFailed.Store(true)
						}
					}()
				}
				waitInflight()
				if pendingWriteGate && w.Gates.Waiting("write:s") > 0 {
					// The subscribe is parked inside the reply write with the recovery buffer locked: publications now
					// block on a mutex (not durably), so run the next consecutive publish steps in goroutines, yield,
					// and release the write before anything waits on the virtual clock.
					out.labels = append(out.labels, "paused_at_reply_write")
					var batch []vfC01Step
					for sj := si + 1; sj < len(cs.Steps) && cs.Steps[sj].Kind == 0 && len(batch) < 3; sj++ {
						cs.Steps[sj].Kind = -1 // consumed
						batch = append(batch, cs.Steps[sj])
						bufferedDuringSub++
					}
					inWriteWindow = true
					pdone := make(chan struct{})
					go func() {
						defer close(pdone)
						for _, st := range batch {
							_ = publish(faultOf(st.Fault), st.Tags)
						}
					}()
					for y := 0; y < 200; y++ {
						runtime.Gosched()
					}
					w.Gates.Disarm("write:s")
					w.Gates.Release("write:s")
					<-pdone
					inWriteWindow = false
					vfSettle()
				}
				w.Gates.Disarm("write:s")
				pendingWriteGate = false
			case 3:
				if len(w.Gates.AnyWaiting()) > 0 {
					out.labels = append(out.labels, "gate_released_midway")
				}
				releaseGates()
			case 4:
				if len(w.Gates.AnyWaiting()) > 0 || !connected || cs.Mode != 0 {
					if cs.Mode != 0 && connected && len(w.Gates.AnyWaiting()) == 0 {
						conn.Client.Unsubscribe(ch)
						vfSettle()
					}
					continue
				}
				conn.Cmd(&protocol.Command{Id: conn.NextID(), Unsubscribe: &protocol.UnsubscribeRequest{Channel: ch}})
				vfSettle()
			case 5:
				time.Sleep(time.Duration(s.Adv) * time.Second)
				vfSettle()
			case 6:
				_ = w.node.RemoveHistory(ch)
				trimOrReset = true
			case 7:
				time.Sleep(45 * time.Second)
				vfSettle()
			}
		}
		releaseGates()
		for w.broker.NumHeld() > 0 {
			w.broker.ReleaseHeld(0)
		}
		vfSettle()
		time.Sleep(2 * time.Second)
		vfSettle()
		nFramesBeforeFinal := len(conn.Frames())
		closedBeforeFinal, _ := conn.T.Closed()
		// Let the periodic position check run (it rides on the presence tick; ClientChannelPositionCheckDelay is 40 s):
		// a subscription that lost a trailing publication is documented to be ended with insufficient state then.
		for i := 0; i < 3; i++ {
			time.Sleep(45 * time.Second)
			vfSettle()
		}

		// ---- oracle over the subject's frames ----------------------------------------------------------------
		frames := conn.Frames()
		rendered := vfRenderFrames(frames)
		type segment struct {
			unjudged bool
			srvRecover bool // started by a Client.Subscribe push with RecoverSince
			startFrame int
			active bool
			epoch  string
			last   uint64
			start  uint64
			n      int
		}
		var seg segment
		segments, delivered, outside, outOfOrderStarts := 0, 0, 0, 0
		epochResetKey := ""
		serverIdx := 0
		type segSpan struct{ start, end int } // frame indices; end -1 = never ended
		var spans []segSpan
		curFrame := 0
		endSeg := func() {
			if seg.active && len(spans) > 0 && spans[len(spans)-1].end < 0 {
				spans[len(spans)-1].end = curFrame
			}
			seg.active = false
		}
		clientTF := cs.ClientTF
		if cs.Mode != 0 {
			clientTF = nil
		}
		deliver := func(p *protocol.Publication, where string) string {
			if seg.active && seg.unjudged {
				return ""
			}
			if !seg.active {
				// Pushes outside a subscription's start/end bracket are property C10's subject (and with
				// ReplyWithoutQueue a queued push may legitimately be overtaken by a direct reply); not judged here.
				outside++
				return ""
			}
			if p.Offset <= seg.last {
				return fmt.Sprintf("offsets not strictly increasing: %d after %d (%s)", p.Offset, seg.last, where)
			}
			for o := seg.last + 1; o < p.Offset; o++ {
				rec, ok := byKey[fmt.Sprintf("%s/%d", seg.epoch, o)]
				if !ok {
					return fmt.Sprintf("offset %d (epoch %s) between position %d and delivered %d was never published in this epoch (%s)", o, seg.epoch, seg.last, p.Offset, where)
				}
				if cs.ServerTF.Match(rec.Tags) && clientTF.Match(rec.Tags) {
					return fmt.Sprintf("silent gap: offset %d (tags %s) was neither delivered nor filtered before offset %d was delivered (%s); subscribe position %d", o, vfTagsStr(rec.Tags), p.Offset, where, seg.start)
				}
			}
			rec, ok := byKey[fmt.Sprintf("%s/%d", seg.epoch, p.Offset)]
			if !ok {
				return fmt.Sprintf("delivered offset %d does not exist in epoch %s (%s)", p.Offset, seg.epoch, where)
			}
			if string(p.Data) != rec.Data {
				return fmt.Sprintf("delivered offset %d carries data %s, published was %s (%s)", p.Offset, p.Data, rec.Data, where)
			}
			if !(cs.ServerTF.Match(rec.Tags) && clientTF.Match(rec.Tags)) {
				return fmt.Sprintf("delivered offset %d is excluded by the subscription's filters (%s)", p.Offset, where)
			}
			seg.last = p.Offset
			seg.n++
			delivered++
			return ""
		}
		startSeg := func(res *protocol.SubscribeResult, a *vfC01SubAttempt, pushOffset uint64, pushEpoch string, isPush bool) string {
			if seg.active {
				// A subscribe reply may reach the wire ahead of the push that ended the previous subscription: with
				// ReplyWithoutQueue a direct reply overtakes queued pushes, and Client.Unsubscribe (also the
				// insufficient-state path) removes the channel before it enqueues the unsubscribe push, so a
				// re-subscribe in between is answered first. The order of start/end frames is property C10's
				// subject; here the new start implicitly ends the previous segment.
				outOfOrderStarts++
				endSeg()
			}
			seg = segment{active: true, startFrame: curFrame}
			spans = append(spans, segSpan{start: curFrame, end: -1})
			segments++
			if a != nil && a.epochReset {
				key := "C01:epoch-reset-inside-subscribe-window-merges-two-epochs"
				if isKnown(key) {
					out.known = append(out.known, key)
					out.knownEx = "subscribe parked between its history read and the buffer release while the stream was reset"
					seg.unjudged = true
					return ""
				}
				epochResetKey = "[" + key + "] "
			} else {
				epochResetKey = ""
			}
			if isPush {
				seg.epoch, seg.last = pushEpoch, pushOffset
				seg.start = seg.last
				return ""
			}
			seg.epoch = res.Epoch
			seg.last = res.Offset // recovered ⇒ the server echoes the requested offset; else the current top
			seg.start = seg.last
			if res.Recovered && a != nil && res.Offset != a.reqOffset {
				return fmt.Sprintf("recovered=true but reply offset %d differs from the requested %d", res.Offset, a.reqOffset)
			}
			for _, p := range res.Publications {
				if m := deliver(p, "subscribe reply"); m != "" {
					return m
				}
			}
			if !res.Recovered && len(res.Publications) > 0 {
				return "publications in a subscribe reply with recovered=false"
			}
			return ""
		}
		var segBefore segment // state of the last segment right before the final position-check phase
		haveBefore := false
		for fi, f := range frames {
			if fi == nFramesBeforeFinal && !haveBefore {
				segBefore, haveBefore = seg, true
			}
			if f.Err != nil {
				return fmt.Sprintf("frame %d undecodable: %v", fi, f.Err)
			}
			r := f.Reply
			var m string
			curFrame = fi
			switch {
			case r.Connect != nil:
				if res, ok := r.Connect.Subs[ch]; ok {
					m = startSeg(res, firstAttempt, 0, "", false)
					serverIdx++
				}
			case r.Subscribe != nil && r.Error == nil:
				m = startSeg(r.Subscribe, attempts[r.Id], 0, "", false)
			case r.Unsubscribe != nil:
				endSeg()
			case r.Push != nil && r.Push.Channel == ch && r.Push.Subscribe != nil:
				var a *vfC01SubAttempt
				for serverIdx < len(serverAttempts) && serverAttempts[serverIdx].srvFailed.Load() {
					serverIdx++ // a failed Client.Subscribe (error / insufficient state) sends no subscribe push
				}
				if serverIdx < len(serverAttempts) {
					a = serverAttempts[serverIdx]
				}
				serverIdx++
				m = startSeg(nil, a, r.Push.Subscribe.Offset, r.Push.Subscribe.Epoch, true)
				if m == "" && a != nil && a.recover && r.Push.Subscribe.Offset == a.reqOffset {
					// Server-side subscribe with RecoverSince: the push echoes the requested offset when recovery succeeded,
					// but a Subscribe push cannot carry the recovered publications.
					seg.start = a.reqOffset
				}
				if m == "" && a != nil && a.recover {
					seg.srvRecover = true
				}
			case r.Push != nil && r.Push.Channel == ch && r.Push.Unsubscribe != nil:
				// The only server-initiated ends in this world: insufficient state (client-side subscriptions, 2500) and
				// the harness's own Client.Unsubscribe of a server-side subscription (2000; its insufficient state is a
				// disconnect). A client told "unsubscribed by the server" instead of "insufficient state" does not resubscribe.
				want := uint32(2500)
				if cs.Mode != 0 {
					want = 2000
				}
				if r.Push.Unsubscribe.Code != want {
					m = fmt.Sprintf("subscription ended with unsubscribe code %d, expected %d (frame %d)", r.Push.Unsubscribe.Code, want, fi)
				}
				endSeg()
			case r.Push != nil && r.Push.Disconnect != nil:
				endSeg()
			case r.Push != nil && r.Push.Channel == ch && r.Push.Pub != nil:
				m = deliver(r.Push.Pub, fmt.Sprintf("push, frame %d", fi))
				if m != "" && seg.srvRecover && strings.HasPrefix(m, "silent gap") {
					key := "C01:server-side-subscribe-recover-since-drops-recovered-publications"
					if isKnown(key) {
						out.known = append(out.known, key)
						out.knownEx = m
						m = ""
						seg.last = r.Push.Pub.Offset
					} else {
						m = "[" + key + "] " + m
					}
				}
			}
			if m != "" {
				return epochResetKey + m + "; frames: " + rendered
			}
		}
		closedAtEnd, _ := conn.T.Closed()
		delMu.Lock()
		dels := append([]nodeDelivery(nil), deliveries...)
		delMu.Unlock()
		visible := func(nd nodeDelivery) bool {
			rec, ok := byKey[fmt.Sprintf("%s/%d", nd.epoch, nd.off)]
			return ok && cs.ServerTF.Match(rec.Tags) && clientTF.Match(rec.Tags)
		}
		if !haveBefore {
			segBefore = seg
		}
		if sb := segBefore; sb.active && !sb.unjudged && !sb.srvRecover && sb.epoch != "" && !closedBeforeFinal {
			// "If the server cannot guarantee this ... it ends the subscription": a subscription that is still alive when the
			// schedule is over (before the periodic position checks of the final phase get a chance to clean up) must have
			// been given every publication that reached this node after its start frame was written - the server either
			// delivers it, or (gap, other epoch) ends the subscription; silently dropping it is neither.
			for _, nd := range dels {
				if nd.frames <= sb.startFrame || !visible(nd) {
					continue
				}
				if nd.epoch != sb.epoch || nd.off > sb.last {
					out.labels = append(out.labels, "stuck_subscription")
					return fmt.Sprintf("subscription is still active when the schedule is over (last delivered offset %d, epoch %s) although publication offset %d epoch %s reached this node after the subscription had started (%d frames written then, start frame %d): it was neither delivered nor answered with an insufficient-state end; frames: %s",
						sb.last, sb.epoch, nd.off, nd.epoch, nd.frames, sb.startFrame, rendered)
				}
			}
			out.labels = append(out.labels, "alive_at_end_holds_everything_delivered_to_the_node")
		}
		if seg.active && !seg.unjudged && !seg.srvRecover && seg.epoch != "" && !closedAtEnd {
			// ... and after the periodic position checks of the final phase it must hold the stream top: a trailing loss
			// (dropped delivery, publication lost inside the subscribe window) is something the server can detect.
			if curEpoch != "" && curEpoch != seg.epoch {
				return fmt.Sprintf("subscription is still active after the final position checks although the stream epoch changed from %s to %s; frames: %s", seg.epoch, curEpoch, rendered)
			}
			for _, rec := range pubs {
				if rec.Epoch == seg.epoch && rec.Off > seg.last && cs.ServerTF.Match(rec.Tags) && clientTF.Match(rec.Tags) {
					return fmt.Sprintf("subscription is still active after the final position checks although it never received offset %d (last delivered %d, stream top %d); frames: %s", rec.Off, seg.last, top, rendered)
				}
			}
			out.labels = append(out.labels, "alive_after_position_checks_holds_stream_top")
		}
		if cs.MaxLagSec > 0 && !closedAtEnd {
			for _, nd := range dels {
				if nd.inflight || nd.lagMs <= int64(cs.MaxLagSec)*1000 || !visible(nd) {
					continue
				}
				out.labels = append(out.labels, "delivery_lag_exceeded")
				for _, sp := range spans {
					if sp.start < nd.frames && sp.end < 0 {
						return fmt.Sprintf("publication offset %d reached this node %d ms after it was published (ClientChannelPositionMaxTimeLag %ds) while the subscription started at frame %d was established, yet the subscription was never ended; frames: %s",
							nd.off, nd.lagMs, cs.MaxLagSec, sp.start, rendered)
					}
				}
			}
		}
		if closedAtEnd {
			out.labels = append(out.labels, "connection_closed")
		}
		if bufferedDuringSub > 0 || faults > 0 || trimOrReset {
			out.nontrivial = true
		}
		if bufferedDuringSub > 0 {
			out.labels = append(out.labels, "publish_inside_subscribe_window")
		}
		if faults > 0 {
			out.labels = append(out.labels, "pubsub_fault_injected")
		}
		if trimOrReset {
			out.labels = append(out.labels, "history_removed_or_epoch_reset")
		}
		if segments > 0 {
			out.labels = append(out.labels, "subscribed_at_least_once")
		}
		if delivered > 0 {
			out.labels = append(out.labels, "publications_delivered")
		}
		if outside > 0 {
			out.labels = append(out.labels, "pub_outside_segment_ignored")
		}
		if outOfOrderStarts > 0 {
			out.labels = append(out.labels, "subscribe_start_before_previous_end_frame")
		}
		if faults == 0 && segments > 0 && seg.active && seg.last == top && seg.epoch == curEpoch {
			out.labels = append(out.labels, "no_fault_alive_at_top")
		}
		if faults == 0 && segments > 0 && !seg.active {
			out.labels = append(out.labels, "no_fault_but_ended")
		}
		return ""
	})
}

// vfC01Presence gates AddPresence (the subscribe path calls it after the hub registration).
type vfC01Presence struct {
	inner PresenceManager
	pass  func()
}

func (p *vfC01Presence) Presence(ch string) (map[string]*ClientInfo, error) { return p.inner.Presence(ch) }
func (p *vfC01Presence) PresenceStats(ch string) (PresenceStats, error)      { return p.inner.PresenceStats(ch) }
func (p *vfC01Presence) AddPresence(ch string, clientID string, info *ClientInfo) error {
	p.pass()
	return p.inner.AddPresence(ch, clientID, info)
}
func (p *vfC01Presence) RemovePresence(ch string, clientID string, userID string) error {
	return p.inner.RemovePresence(ch, clientID, userID)
}

func TestVF_C01(t *testing.T) {
	vfCheck(t, "C01", func(rt *rapid.T, c *vfCase) string {
		cs := vfC01Gen(rt)
		c.Describe(cs.String())
		out := &vfC01Out{}
		msg := vfC01Run(t, cs, out, c.IsKnown)
		seen := map[string]bool{}
		for _, l := range out.labels {
			if !seen[l] {
				seen[l] = true
				c.Label(l)
			}
		}
		for _, k := range out.known {
			c.Known(k, out.knownEx)
		}
		if out.nontrivial {
			c.Nontrivial(c.desc)
		}
		return msg
	})
}
