package PKGNAME

// C39 — Recovery merge is sorted, deduplicated and detects gaps.
// Oracle: independent set computation over offsets (no sorting of publications, no shared code).

import (
	"fmt"
	"strings"
	"testing"

	"github.com/centrifugal/protocol"
	"pgregory.net/rapid"
)

type vfC39Pub struct {
	Off      uint64
	Filtered bool
	ID       int // identity tag stored in Data
}

func vfC39Gen(rt *rapid.T, label string, base uint64, idStart int) []vfC39Pub {
	n := rapid.IntRange(0, 9).Draw(rt, label+"_n")
	out := make([]vfC39Pub, 0, n)
	mode := rapid.IntRange(0, 3).Draw(rt, label+"_mode")
	cur := base + uint64(rapid.IntRange(0, 4).Draw(rt, label+"_start"))
	for i := 0; i < n; i++ {
		var off uint64
		switch mode {
		case 0, 1: // mostly consecutive, sometimes skip / repeat
			step := rapid.SampledFrom([]int{1, 1, 1, 1, 1, 0, 2, 3}).Draw(rt, label+"_step")
			cur += uint64(step)
			off = cur
		default: // arbitrary small range (unsorted)
			off = base + uint64(rapid.IntRange(0, 12).Draw(rt, label+"_off"))
		}
		filt := rapid.IntRange(0, 4).Draw(rt, label+"_f") == 0
		out = append(out, vfC39Pub{Off: off, Filtered: filt, ID: idStart + i})
	}
	if mode == 1 && n > 1 { // shuffle a little
		i := rapid.IntRange(0, n-1).Draw(rt, label+"_sw1")
		j := rapid.IntRange(0, n-1).Draw(rt, label+"_sw2")
		out[i], out[j] = out[j], out[i]
	}
	return out
}

func vfC39ToProto(in []vfC39Pub) []*protocol.Publication {
	out := make([]*protocol.Publication, 0, len(in))
	for _, p := range in {
		pub := &protocol.Publication{Offset: p.Off, Data: []byte(fmt.Sprintf("%d", p.ID))}
		if p.Filtered {
			pub.Time = -1
		} else {
			pub.Time = int64(1000 + p.ID)
		}
		out = append(out, pub)
	}
	return out
}

func vfC39Render(rec, buf []vfC39Pub) string {
	var sb strings.Builder
	w := func(name string, l []vfC39Pub) {
		sb.WriteString(name + "=[")
		for i, p := range l {
			if i > 0 {
				sb.WriteByte(' ')
			}
			if p.Filtered {
				fmt.Fprintf(&sb, "~%d", p.Off)
			} else {
				fmt.Fprintf(&sb, "%d", p.Off)
			}
		}
		sb.WriteString("]")
	}
	w("recovered", rec)
	sb.WriteByte(' ')
	w("buffered", buf)
	return sb.String()
}

func TestVF_C39(t *testing.T) {
	vfCheck(t, "C39", func(rt *rapid.T, c *vfCase) string {
		base := rapid.SampledFrom([]uint64{0, 1, 5, 1 << 32, ^uint64(0) - 20}).Draw(rt, "base")
		rec := vfC39Gen(rt, "rec", base, 0)
		buf := vfC39Gen(rt, "buf", base, 100)
		c.Describe(vfC39Render(rec, buf))

		// ---- oracle -------------------------------------------------------------------------------
		real := map[uint64]bool{}
		skipped := map[uint64]bool{}
		idsByOff := map[uint64]map[string]bool{}
		var maxAll uint64
		dups := false
		placeholders := 0
		for _, l := range [][]vfC39Pub{rec, buf} {
			for _, p := range l {
				if p.Off > maxAll {
					maxAll = p.Off
				}
				if p.Filtered {
					skipped[p.Off] = true
					placeholders++
					continue
				}
				if real[p.Off] {
					dups = true
				}
				real[p.Off] = true
				if idsByOff[p.Off] == nil {
					idsByOff[p.Off] = map[string]bool{}
				}
				idsByOff[p.Off][fmt.Sprintf("%d", p.ID)] = true
			}
		}
		// "The merged offsets have a hole not covered by filtered placeholders": every offset seen in either list
		// (real or placeholder) up to the maximum seen offset - which the function reports and the caller adopts as
		// the new position - must be accounted for. (An earlier version of this oracle only looked between the real
		// publications, mirroring the code; C01's check found a silent gap next to a trailing placeholder, the
		// statement was re-read and the code fixed.)
		hole := false
		if len(buf) > 0 {
			seen := map[uint64]bool{}
			var minAll uint64
			firstAll := true
			for _, l := range [][]vfC39Pub{rec, buf} {
				for _, p := range l {
					seen[p.Off] = true
					if firstAll || p.Off < minAll {
						minAll = p.Off
					}
					firstAll = false
				}
			}
			for o := minAll; o < maxAll; o++ {
				if !seen[o] {
					hole = true
					break
				}
			}
		}
		expectOK := !hole

		if len(rec) > 0 && len(buf) > 0 && (placeholders > 0 || dups) {
			c.Nontrivial(c.desc)
		}
		if hole {
			c.Label("hole")
		} else {
			c.Label("no_hole")
		}
		if placeholders > 0 {
			c.Label("has_placeholder")
		}
		if dups {
			c.Label("has_duplicate")
		}
		if len(buf) == 0 {
			c.Label("no_buffered")
		}

		// ---- run ----------------------------------------------------------------------------------
		out, maxSeen, ok := MergePublications(vfC39ToProto(rec), vfC39ToProto(buf))
		if ok != expectOK {
			return fmt.Sprintf("ok=%v, expected %v", ok, expectOK)
		}
		if !ok {
			if out != nil || maxSeen != 0 {
				return fmt.Sprintf("failure must return (nil,0,false), got len=%d max=%d", len(out), maxSeen)
			}
			return ""
		}
		if maxSeen != maxAll {
			return fmt.Sprintf("maxSeen=%d expected %d", maxSeen, maxAll)
		}
		if len(out) != len(real) {
			return fmt.Sprintf("output has %d publications, expected %d distinct real offsets", len(out), len(real))
		}
		var prev uint64
		for i, p := range out {
			if p == nil {
				return "nil publication in output"
			}
			if p.Time == -1 {
				return fmt.Sprintf("filtered placeholder offset %d in output", p.Offset)
			}
			if !real[p.Offset] {
				return fmt.Sprintf("offset %d in output is not a real input offset", p.Offset)
			}
			if i > 0 && p.Offset <= prev {
				return fmt.Sprintf("output not strictly increasing at index %d (%d after %d)", i, p.Offset, prev)
			}
			if !idsByOff[p.Offset][string(p.Data)] {
				return fmt.Sprintf("output element for offset %d (data %q) is not an input element of that offset", p.Offset, p.Data)
			}
			prev = p.Offset
		}
		return ""
	})
}
