package PKGNAME

import (
	"testing"

	"pgregory.net/rapid"
)

func TestVF_Smoke(t *testing.T) {
	vfCheck(t, "SMOKE", func(rt *rapid.T, c *vfCase) string {
		n := rapid.IntRange(0, 10).Draw(rt, "n")
		c.Describe("n")
		_ = n
		c.Nontrivial("x")
		return ""
	})
}
