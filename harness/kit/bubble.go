package PKGNAME

import (
	"fmt"
	"runtime"
	"runtime/debug"
	"testing"
	"testing/synctest"
)

// vfBubble runs f inside a testing/synctest bubble (virtual clock, quiescence detection) and returns its verdict.
// f must not touch rapid; every goroutine it starts must have exited when it returns. A panic on f's goroutine is
// returned as a verdict text starting with "PANIC:". Two GC cycles afterwards empty sync.Pools so that pooled
// timers created in this bubble are never reused in the next one.
func vfBubble(t *testing.T, f func() string) string {
	var out string
	synctest.Test(t, func(st *testing.T) {
		defer func() {
			if r := recover(); r != nil {
				out = fmt.Sprintf("PANIC: %v\n%s", r, debug.Stack())
			}
		}()
		out = f()
	})
	runtime.GC()
	runtime.GC()
	return out
}

// vfSettle waits until every other goroutine of the bubble is durably blocked.
func vfSettle() { synctest.Wait() }
