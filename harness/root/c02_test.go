package PKGNAME

// C02 — Stream recovery is exact or explicitly refused.
// Sequential histories on a virtual clock; independent stream model; one recovering subscribe at the end.

import (
	"fmt"
	"strings"
	"testing"
	"time"

	"github.com/centrifugal/protocol"
	"pgregory.net/rapid"
)

type vfC02Op struct {
	Kind    int // 0 publish, 1 advance, 2 remove history
	Size    int
	TTL     int // seconds
	MetaTTL int // seconds, 0 = node default
	Tags    map[string]string
	Adv     int // seconds
}

type vfC02Case struct {
	TTL         int // history TTL (s), constant per case: the memory broker honours a *shortened* TTL only when the
	MetaTTL     int // previously queued deadline fires, so per-publish TTLs would make expiry time imprecise
	Limit       int
	Ops         []vfC02Op
	Mode        int // 0 client-side, 1 connect-time server-side (bidi), 2 connect-time server-side (uni)
	Proto       ProtocolType
	OffPick     int
	EpochKind   int // 0 current, 1 old, 2 random, 3 empty
	Reject      bool
	ServerTF    *vfTF
	ClientTF    *vfTF
	SubMetaTTL  int
	Positioning bool
	Window      []map[string]string // tags of publications issued while the subscribe is parked right after its history read
}

func (o vfC02Op) String() string {
	switch o.Kind {
	case 0:
		return fmt.Sprintf("pub(size=%d tags=%s)", o.Size, vfTagsStr(o.Tags))
	case 1:
		return fmt.Sprintf("adv(%ds)", o.Adv)
	}
	return "removeHistory"
}

func (c vfC02Case) String() string {
	ops := make([]string, len(c.Ops))
	for i, o := range c.Ops {
		ops[i] = o.String()
	}
	win := make([]string, len(c.Window))
	for i, t := range c.Window {
		win[i] = vfTagsStr(t)
	}
	return fmt.Sprintf("ttl=%ds meta=%ds limit=%d ops=[%s] sub{mode=%d proto=%s offPick=%d epochKind=%d reject=%v serverTF=%s clientTF=%s subMeta=%ds} windowPubs=[%s]",
		c.TTL, c.MetaTTL, c.Limit, strings.Join(ops, " "), c.Mode, c.Proto, c.OffPick, c.EpochKind, c.Reject, c.ServerTF, c.ClientTF, c.SubMetaTTL, strings.Join(win, " "))
}

func vfC02Gen(rt *rapid.T) vfC02Case {
	c := vfC02Case{}
	c.Limit = rapid.SampledFrom([]int{0, 0, 1, 2, 3, 5}).Draw(rt, "limit")
	c.TTL = rapid.SampledFrom([]int{2, 4, 8, 60}).Draw(rt, "ttl")
	c.MetaTTL = rapid.SampledFrom([]int{0, 0, 3, 6, 12}).Draw(rt, "meta")
	n := rapid.IntRange(1, 12).Draw(rt, "nops")
	for i := 0; i < n; i++ {
		k := rapid.SampledFrom([]int{0, 0, 0, 0, 1, 1, 2}).Draw(rt, "kind")
		op := vfC02Op{Kind: k}
		switch k {
		case 0:
			op.Size = rapid.IntRange(1, 6).Draw(rt, "size")
			op.TTL = c.TTL
			op.MetaTTL = c.MetaTTL
			op.Tags = vfTagsGen(rt, "tags")
		case 1:
			op.Adv = rapid.SampledFrom([]int{1, 1, 2, 3, 5, 9, 14}).Draw(rt, "adv")
		}
		c.Ops = append(c.Ops, op)
	}
	c.Mode = rapid.SampledFrom([]int{0, 0, 0, 1, 2}).Draw(rt, "mode")
	c.Proto = rapid.SampledFrom([]ProtocolType{ProtocolTypeJSON, ProtocolTypeProtobuf}).Draw(rt, "proto")
	c.OffPick = rapid.IntRange(0, 12).Draw(rt, "offPick")
	c.EpochKind = rapid.SampledFrom([]int{0, 0, 0, 0, 1, 2, 3, 3}).Draw(rt, "epochKind")
	c.Reject = rapid.IntRange(0, 4).Draw(rt, "reject") == 0
	c.ServerTF = vfTFGenOpt(rt, "stf")
	c.ClientTF = vfTFGenOpt(rt, "ctf")
	c.SubMetaTTL = c.MetaTTL
	if rapid.IntRange(0, 2).Draw(rt, "window") == 0 {
		for i, n := 0, rapid.IntRange(1, 3).Draw(rt, "windowPubs"); i < n; i++ {
			c.Window = append(c.Window, vfTagsGen(rt, "wtags"))
		}
	}
	return c
}

type vfC02Out struct {
	labels     []string
	nontrivial bool
}


func vfC02Run(t *testing.T, cs vfC02Case, out *vfC02Out) string {
	return vfBubble(t, func() string {
		w, err := vfNewWorld(Config{RecoveryMaxPublicationLimit: cs.Limit}, nil)
		if err != nil {
			return "infra: " + err.Error()
		}
		defer w.Close()
		ch := "ch"
		subOpts := SubscribeOptions{EnableRecovery: true, AllowTagsFilter: true, ServerTagsFilter: cs.ServerTF.Proto(),
			HistoryMetaTTL: time.Duration(cs.SubMetaTTL) * time.Second}
		w.ChanOpts = func(c *vfConn, e SubscribeEvent) (SubscribeReply, error) {
			return SubscribeReply{Options: subOpts}, nil
		}
		w.Connecting = func(c *vfConn, e ConnectEvent) (ConnectReply, error) {
			r := ConnectReply{Credentials: &Credentials{UserID: c.User}}
			if cs.Mode != 0 {
				r.Subscriptions = map[string]SubscribeOptions{ch: subOpts}
			}
			return r, nil
		}
		h := vfHistBuild(w, ch, cs.Ops, int64(cs.SubMetaTTL))
		if h.Err != "" {
			return h.Err
		}
		m, epochs, curEpoch, trimmedOrExpired := h.M, h.Epochs, h.CurEpoch, h.TrimmedOrExpired

		reqOffset := uint64(cs.OffPick) % (m.top + 4)
		reqEpoch := ""
		switch cs.EpochKind {
		case 0:
			reqEpoch = curEpoch
		case 1:
			reqEpoch = "zzzz"
			if len(epochs) > 1 {
				reqEpoch = epochs[len(epochs)-2]
			}
		case 2:
			reqEpoch = "ABCD"
		}
		epochOK := reqEpoch == "" || reqEpoch == curEpoch

		// expected recovered set
		retained := map[uint64]vfC02ModelPub{}
		for _, p := range m.retained {
			retained[p.Off] = p
		}
		allRetained := true
		gap := 0
		var want []vfC02ModelPub
		filteredHit, admittedHit := false, false
		if reqOffset < m.top {
			for o := reqOffset + 1; o <= m.top; o++ {
				gap++
				p, ok := retained[o]
				if !ok {
					allRetained = false
					continue
				}
				if cs.ServerTF.Match(p.Tags) && cs.ClientTF.Match(p.Tags) {
					want = append(want, p)
					admittedHit = true
				} else {
					filteredHit = true
				}
			}
		}
		truncated := cs.Limit > 0 && gap > cs.Limit
		possible := epochOK && reqOffset <= m.top && allRetained && !truncated

		// ---- subscribe ---------------------------------------------------------------------------
		conn := w.NewConn(vfConnCfg{Name: "s", User: "u", Proto: cs.Proto, Uni: cs.Mode == 2})
		var res *protocol.SubscribeResult
		var replyErr *protocol.Error
		// Publications issued while the subscribe is parked right after its history read: they are buffered and must be
		// merged into a recovered reply, and must not appear in a reply that says recovered=false.
		type winPub struct {
			Off  uint64
			Data string
			Tags map[string]string
		}
		var window []winPub
		windowEpochChange := false
		gateOn := len(cs.Window) > 0
		w.broker.Hook = func(op, phase, hch string) error {
			if gateOn && op == "history" && phase == "after" && hch == ch {
				w.Gates.Pass("history")
			}
			return nil
		}
		runParked := func(f func()) {
			if !gateOn {
				f()
				return
			}
			w.Gates.Arm("history", 1)
			done := make(chan struct{})
			go func() { defer close(done); f() }()
			vfSettle()
			if w.Gates.Waiting("history") > 0 {
				for i, tg := range cs.Window {
					data := fmt.Sprintf(`{"w":%d}`, i)
					size := 6
					pr, err := w.node.Publish(ch, []byte(data), WithHistory(size, time.Duration(cs.TTL)*time.Second, time.Duration(cs.MetaTTL)*time.Second), WithTags(tg))
					if err != nil || curEpoch == "" || pr.Epoch != curEpoch {
						windowEpochChange = true // stream (re)created inside the window: C01's known finding territory, not judged here
					}
					window = append(window, winPub{Off: pr.Offset, Data: data, Tags: tg})
				}
				vfSettle()
			}
			gateOn = false
			w.Gates.Disarm("history")
			for w.Gates.Release("history") {
			}
			<-done
		}
		switch cs.Mode {
		case 0:
			conn.Connect(nil)
			req := &protocol.SubscribeRequest{Channel: ch, Recover: true, Offset: reqOffset, Epoch: reqEpoch, Tf: cs.ClientTF.Proto()}
			if cs.Reject {
				req.Flag |= subscriptionFlagRejectUnrecovered
			}
			id := conn.NextID()
			runParked(func() { conn.Cmd(&protocol.Command{Id: id, Subscribe: req}) })
			vfSettle()
			for _, f := range conn.Frames() {
				if f.Err != nil {
					return "undecodable frame: " + f.Err.Error()
				}
				if f.Reply.Id == id {
					res = f.Reply.Subscribe
					replyErr = f.Reply.Error
				}
			}
		default:
			runParked(func() {
				conn.Connect(&protocol.ConnectRequest{Subs: map[string]*protocol.SubscribeRequest{ch: {Recover: true, Offset: reqOffset, Epoch: reqEpoch}}})
			})
			vfSettle()
			for _, f := range conn.Frames() {
				if f.Err != nil {
					return "undecodable frame: " + f.Err.Error()
				}
				if f.Reply.Connect != nil && f.Reply.Connect.Subs != nil {
					res = f.Reply.Connect.Subs[ch]
				}
				if f.Reply.Push != nil && f.Reply.Push.Connect != nil && f.Reply.Push.Connect.Subs != nil {
					res = f.Reply.Push.Connect.Subs[ch]
				}
			}
		}
		frames := vfRenderFrames(conn.Frames())
		clientTFActive := cs.Mode == 0 && cs.ClientTF != nil
		if !clientTFActive {
			// connect-time subscriptions carry no client filter: recompute admitted set with the server filter only
			want = want[:0]
			filteredHit, admittedHit = false, false
			if reqOffset < m.top {
				for o := reqOffset + 1; o <= m.top; o++ {
					if p, ok := retained[o]; ok {
						if cs.ServerTF.Match(p.Tags) {
							want = append(want, p)
							admittedHit = true
						} else {
							filteredHit = true
						}
					}
				}
			}
		}

		if len(window) > 0 {
			out.labels = append(out.labels, "publications_inside_subscribe_window")
			out.nontrivial = true
			if windowEpochChange {
				out.labels = append(out.labels, "window_epoch_change_unjudged")
				return ""
			}
			for _, wp := range window {
				if cs.ServerTF.Match(wp.Tags) && (!clientTFActive || cs.ClientTF.Match(wp.Tags)) {
					want = append(want, vfC02ModelPub{Off: wp.Off, Tags: wp.Tags, Data: wp.Data})
				}
			}
		}

		// ---- classify ----------------------------------------------------------------------------
		if reqOffset < m.top && (trimmedOrExpired || truncated || filteredHit || !epochOK) {
			out.nontrivial = true
		}
		if possible {
			out.labels = append(out.labels, "recovery_possible")
		} else {
			out.labels = append(out.labels, "recovery_impossible")
		}
		if truncated {
			out.labels = append(out.labels, "limit_truncates")
		}
		if !allRetained {
			out.labels = append(out.labels, "gap_not_retained")
		}
		if !epochOK {
			out.labels = append(out.labels, "epoch_mismatch")
		}
		if filteredHit && admittedHit {
			out.labels = append(out.labels, "filter_mixed")
		}
		if reqOffset > m.top {
			out.labels = append(out.labels, "future_offset")
		}

		// ---- oracle ------------------------------------------------------------------------------
		if res == nil {
			if replyErr != nil {
				if cs.Mode == 0 && cs.Reject && replyErr.Code == ErrorUnrecoverablePosition.Code {
					out.labels = append(out.labels, "rejected_unrecoverable")
					if possible {
						out.labels = append(out.labels, "refused_although_possible")
					}
					return ""
				}
				return fmt.Sprintf("subscribe failed with error %d %s; frames: %s", replyErr.Code, replyErr.Message, frames)
			}
			if closed, d := conn.T.Closed(); closed {
				return fmt.Sprintf("connection closed with %d %s instead of a subscribe result; frames: %s", d.Code, d.Reason, frames)
			}
			return "no subscribe result observed; frames: " + frames
		}
		if res.Recovered {
			out.labels = append(out.labels, "recovered_true")
			if !epochOK {
				return fmt.Sprintf("recovered=true although requested epoch %q differs from current %q; frames: %s", reqEpoch, curEpoch, frames)
			}
			if reqOffset < m.top && !allRetained {
				return fmt.Sprintf("recovered=true although a publication in (%d,%d] is missing from history; frames: %s", reqOffset, m.top, frames)
			}
			if truncated {
				return fmt.Sprintf("recovered=true although the recovery limit %d truncated %d publications; frames: %s", cs.Limit, gap, frames)
			}
			if reqOffset <= m.top {
				if len(res.Publications) != len(want) {
					return fmt.Sprintf("recovered=true with %d publications, expected %d (offsets (%d,%d] minus filtered); frames: %s", len(res.Publications), len(want), reqOffset, m.top, frames)
				}
				for i, p := range res.Publications {
					if p.Offset != want[i].Off || string(p.Data) != want[i].Data {
						return fmt.Sprintf("recovered publication %d is offset %d data %s, expected offset %d data %s; frames: %s", i, p.Offset, p.Data, want[i].Off, want[i].Data, frames)
					}
				}
			} else if len(res.Publications) != 0 {
				return fmt.Sprintf("publications returned for a future offset %d > top %d; frames: %s", reqOffset, m.top, frames)
			}
		} else {
			out.labels = append(out.labels, "recovered_false")
			if len(res.Publications) != 0 {
				return fmt.Sprintf("recovered=false but %d publications returned; frames: %s", len(res.Publications), frames)
			}
			if cs.Mode == 0 && cs.Reject {
				return fmt.Sprintf("client demanded unrecoverable-position error but got recovered=false result; frames: %s", frames)
			}
			if possible {
				out.labels = append(out.labels, "refused_although_possible")
			}
		}
		return ""
	})
}

func TestVF_C02(t *testing.T) {
	vfCheck(t, "C02", func(rt *rapid.T, c *vfCase) string {
		cs := vfC02Gen(rt)
		c.Describe(cs.String())
		out := &vfC02Out{}
		msg := vfC02Run(t, cs, out)
		for _, l := range out.labels {
			c.Label(l)
		}
		if out.nontrivial {
			c.Nontrivial(c.desc)
		}
		return msg
	})
}
