package PKGNAME

// C04 — Publication routing matches subscription state.
// 1-3 connections x 1-3 channels on one real Node inside a synctest bubble. A drawn schedule of operations is
// STARTED WITHOUT WAITING (each in its own goroutine): client subscribe commands whose OnSubscribe callback answers
// synchronously / asynchronously (parked, released by a later step in drawn order) / with an error, client
// unsubscribe commands, Client.Subscribe / Client.Unsubscribe, Node.Subscribe / Node.Unsubscribe, Client.Disconnect,
// transport close, virtual time advance (up to and past the 5 s unsubscribe wait gate). A subscribe can also be
// parked after its hub registration (inside AddPresence / right after its history read) and an unsubscribe can be
// parked between its client-state delete and its hub removal (inside RemovePresence).
// Oracle (state agreement + marker publications) at the final settled point and at intermediate idle points.
//
// Harness discipline (synctest): a goroutine blocked on a sync.Mutex is not durably blocked, so the harness must
// never let a mutex be held across a timer wait while another goroutine contends for it. Client.close() holds
// connectMu while its unsubscribe loop waits (<= 5 s) for an in-flight subscribe of that connection, and any reply
// written to a closed client spawns another close() that blocks on connectMu. Therefore parking is close-aware:
// the moment a connection's transport is closed everything of that connection that the harness parked is released
// (and nothing of it parks any more), so close() never waits for long. The one exception is the "quiet close": a
// close issued while exactly one subscribe attempt of an otherwise idle connection is parked freezes the
// connection (no further operations on it), which lets close() run into its own 5 s wait-gate timeout safely.

import (
	"fmt"
	"runtime"
	"sort"
	"strings"
	"sync"
	"testing"
	"time"

	"github.com/centrifugal/protocol"
	"pgregory.net/rapid"
)

const (
	vfC04SubCmd = iota
	vfC04UnsubCmd
	vfC04ClientSub
	vfC04ClientUnsub
	vfC04NodeSub
	vfC04NodeUnsub
	vfC04Disconnect
	vfC04TransportClose
	vfC04Advance
	vfC04Release
	vfC04Checkpoint
	vfC04Publish
	vfC04PubPark
)

type vfC04Step struct {
	Kind     int
	Conn     int
	Ch       int
	User     int
	Mode     int // subscribe command: 0 sync ok, 1 async parked ok, 2 sync error, 3 async parked error, 4 async immediate ok, 5 sync disconnect
	GateH    bool
	GateP    bool
	GateR    bool
	FailH    int // subscribe ops: fail the next history read of the channel (1 plain error, 2 client *Error)
	FailP    bool // subscribe ops: fail the next AddPresence of (conn, channel)
	Idx      int
	AdvMs    int
	NoSettle bool
	Follow   int  // PubPark: operation started while the delivery is parked: 0 unsubCmd, 1 Client.Unsubscribe, 2 Node.Unsubscribe, 3 transport close, 4 Disconnect
	Resub    bool // PubPark: also start a subscribe command before the delivery is released
	UseDelta bool // Publish / PubPark: publish with the delta option
	Quiet    bool // close ops: freeze the connection (see "quiet close" in vfC04Run)
}

type vfC04Case struct {
	NConns int
	NChans int
	Users  []int
	Protos []ProtocolType
	Init   [][]bool // connect-time server-side subscriptions
	ChPos  []bool   // channel uses positioning (history read during subscribe)
	ChDelta []bool  // channel allows fossil delta; client subscribe commands then negotiate it
	ChPres []bool   // channel uses presence (AddPresence during subscribe, RemovePresence during unsubscribe)
	Steps  []vfC04Step
}

func (s vfC04Step) String() string {
	ns := ""
	if s.NoSettle {
		ns = "!"
	}
	g := ""
	if s.GateH {
		g += "H"
	}
	if s.GateP {
		g += "P"
	}
	if s.GateR {
		g += "R"
	}
	if g != "" {
		g = " gate=" + g
	}
	if s.FailH > 0 {
		g += fmt.Sprintf(" failHistory=%d", s.FailH)
	}
	if s.FailP {
		g += " failPresence"
	}
	switch s.Kind {
	case vfC04SubCmd:
		return fmt.Sprintf("subCmd(k%d c%d %s%s)%s", s.Conn, s.Ch, []string{"sync", "park", "syncErr", "parkErr", "asyncNow", "syncDisconnect"}[s.Mode], g, ns)
	case vfC04UnsubCmd:
		return fmt.Sprintf("unsubCmd(k%d c%d%s)%s", s.Conn, s.Ch, g, ns)
	case vfC04ClientSub:
		return fmt.Sprintf("Client.Subscribe(k%d c%d%s)%s", s.Conn, s.Ch, g, ns)
	case vfC04ClientUnsub:
		return fmt.Sprintf("Client.Unsubscribe(k%d c%d%s)%s", s.Conn, s.Ch, g, ns)
	case vfC04NodeSub:
		return fmt.Sprintf("Node.Subscribe(u%d c%d%s)%s", s.User, s.Ch, g, ns)
	case vfC04NodeUnsub:
		return fmt.Sprintf("Node.Unsubscribe(u%d c%d%s)%s", s.User, s.Ch, g, ns)
	case vfC04Disconnect:
		return fmt.Sprintf("Disconnect(k%d quiet=%v)%s", s.Conn, s.Quiet, ns)
	case vfC04TransportClose:
		return fmt.Sprintf("transportClose(k%d quiet=%v)%s", s.Conn, s.Quiet, ns)
	case vfC04Advance:
		return fmt.Sprintf("adv(%dms)%s", s.AdvMs, ns)
	case vfC04Release:
		return fmt.Sprintf("release(%d)%s", s.Idx, ns)
	case vfC04Publish:
		return fmt.Sprintf("publish(c%d delta=%v)%s", s.Ch, s.UseDelta, ns)
	case vfC04PubPark:
		return fmt.Sprintf("publishParkedInDeliveryTo(k%d c%d delta=%v then %s resub=%v)", s.Conn, s.Ch, s.UseDelta,
			[]string{"unsubCmd", "Client.Unsubscribe", "Node.Unsubscribe", "transportClose", "Disconnect"}[s.Follow], s.Resub)
	}
	return "checkpoint"
}

func (c vfC04Case) String() string {
	st := make([]string, len(c.Steps))
	for i, s := range c.Steps {
		st[i] = s.String()
	}
	conns := make([]string, c.NConns)
	for i := 0; i < c.NConns; i++ {
		init := ""
		for ch := 0; ch < c.NChans; ch++ {
			if c.Init[i][ch] {
				init += fmt.Sprintf("c%d", ch)
			}
		}
		conns[i] = fmt.Sprintf("k%d(u%d %s init=[%s])", i, c.Users[i], c.Protos[i], init)
	}
	chans := make([]string, c.NChans)
	for i := 0; i < c.NChans; i++ {
		chans[i] = fmt.Sprintf("c%d(pos=%v pres=%v delta=%v)", i, c.ChPos[i], c.ChPres[i], c.ChDelta[i])
	}
	return fmt.Sprintf("conns=[%s] chans=[%s] steps=[%s]", strings.Join(conns, " "), strings.Join(chans, " "), strings.Join(st, " "))
}

func vfC04Gen(rt *rapid.T) vfC04Case {
	c := vfC04Case{}
	c.NConns = rapid.SampledFrom([]int{1, 1, 2, 2, 3}).Draw(rt, "nconns")
	c.NChans = rapid.SampledFrom([]int{1, 1, 2, 2, 3}).Draw(rt, "nchans")
	for i := 0; i < c.NConns; i++ {
		c.Users = append(c.Users, rapid.SampledFrom([]int{0, 0, 1}).Draw(rt, "user"))
		c.Protos = append(c.Protos, rapid.SampledFrom([]ProtocolType{ProtocolTypeJSON, ProtocolTypeProtobuf}).Draw(rt, "proto"))
		init := make([]bool, c.NChans)
		for ch := range init {
			init[ch] = rapid.IntRange(0, 5).Draw(rt, "init") == 0
		}
		c.Init = append(c.Init, init)
	}
	for ch := 0; ch < c.NChans; ch++ {
		c.ChPos = append(c.ChPos, rapid.IntRange(0, 2).Draw(rt, "pos") > 0)
		c.ChDelta = append(c.ChDelta, rapid.IntRange(0, 2).Draw(rt, "delta") > 0)
		c.ChPres = append(c.ChPres, rapid.IntRange(0, 2).Draw(rt, "pres") > 0)
	}
	n := rapid.IntRange(4, 26).Draw(rt, "nsteps")
	kinds := []int{
		vfC04SubCmd, vfC04SubCmd, vfC04SubCmd, vfC04SubCmd, vfC04SubCmd, vfC04SubCmd, vfC04SubCmd,
		vfC04UnsubCmd, vfC04UnsubCmd, vfC04UnsubCmd, vfC04UnsubCmd,
		vfC04ClientSub, vfC04ClientSub, vfC04ClientUnsub, vfC04ClientUnsub,
		vfC04NodeSub, vfC04NodeUnsub,
		vfC04Disconnect, // Disconnect or transport close (drawn below)
		vfC04Advance, vfC04Advance, vfC04Advance,
		vfC04Release, vfC04Release, vfC04Release, vfC04Release, vfC04Release,
		vfC04Checkpoint, vfC04Checkpoint,
		vfC04Publish, vfC04Publish, vfC04PubPark,
	}
	for len(c.Steps) < n {
		// bias towards connection 0 / channel 0 so that operations overlap on the same pair
		conn := rapid.SampledFrom([]int{0, 0, 0, 1, 2}).Draw(rt, "conn") % c.NConns
		ch := rapid.SampledFrom([]int{0, 0, 0, 1, 2}).Draw(rt, "ch") % c.NChans
		// 15% of the draws are phrases aimed at specific windows; they expand to ordinary steps
		if ph := rapid.SampledFrom([]int{9, 9, 9, 9, 9, 9, 9, 9, 9, 9, 9, 9, 9, 9, 9, 9, 9, 9, 9, 9, 9, 9, 9, 9, 9, 9, 9, 9, 9, 9, 9, 4, 4, 4, 3, 3, 2, 2, 1, 0}).Draw(rt, "phrase"); ph < 5 {
			parkedSub := vfC04Step{Kind: vfC04SubCmd, Conn: conn, Ch: ch, Mode: rapid.SampledFrom([]int{1, 1, 3, 0}).Draw(rt, "pmode")}
			if parkedSub.Mode == 0 {
				parkedSub.GateH, parkedSub.GateP = true, true // parks after the hub registration when the channel allows it
			}
			adv := vfC04Step{Kind: vfC04Advance, AdvMs: rapid.SampledFrom([]int{5000, 5000, 6000, 2000}).Draw(rt, "padv")}
			switch ph {
			case 4: // unsubscribe / close lands inside the first real-time delivery to a fresh (delta) subscription
				c.Steps = append(c.Steps, vfC04Step{Kind: vfC04UnsubCmd, Conn: conn, Ch: ch},
					vfC04Step{Kind: vfC04SubCmd, Conn: conn, Ch: ch},
					vfC04Step{Kind: vfC04PubPark, Conn: conn, Ch: ch, User: c.Users[conn], UseDelta: rapid.Bool().Draw(rt, "pdelta"),
						Follow: rapid.SampledFrom([]int{0, 0, 1, 2, 3, 4}).Draw(rt, "pfollow"), Resub: rapid.IntRange(0, 2).Draw(rt, "presub2") == 0})
			case 0: // close() itself runs into the wait gate of the parked subscribe, which resumes afterwards
				c.Steps = append(c.Steps, parkedSub,
					vfC04Step{Kind: rapid.SampledFrom([]int{vfC04Disconnect, vfC04TransportClose}).Draw(rt, "pclose"), Conn: conn, Quiet: true},
					adv, vfC04Step{Kind: vfC04Release, Idx: 0})
			case 1: // unsubscribe waits for the parked subscribe until the wait gate times out
				c.Steps = append(c.Steps, parkedSub,
					vfC04Step{Kind: rapid.SampledFrom([]int{vfC04UnsubCmd, vfC04ClientUnsub}).Draw(rt, "punsub"), Conn: conn, Ch: ch},
					adv, vfC04Step{Kind: vfC04Release, Idx: 0})
			case 2: // resubscribe while an unsubscribe is parked between its client-state delete and its hub removal
				c.Steps = append(c.Steps, vfC04Step{Kind: vfC04SubCmd, Conn: conn, Ch: ch},
					vfC04Step{Kind: vfC04UnsubCmd, Conn: conn, Ch: ch, GateR: true},
					vfC04Step{Kind: rapid.SampledFrom([]int{vfC04SubCmd, vfC04ClientSub}).Draw(rt, "presub"), Conn: conn, Ch: ch},
					vfC04Step{Kind: vfC04Release, Idx: 0})
			default: // unsubscribe issued while the subscribe is parked, released before the wait gate expires
				c.Steps = append(c.Steps, parkedSub,
					vfC04Step{Kind: rapid.SampledFrom([]int{vfC04UnsubCmd, vfC04ClientUnsub, vfC04NodeUnsub}).Draw(rt, "punsub"), Conn: conn, Ch: ch, User: c.Users[conn]},
					vfC04Step{Kind: vfC04Release, Idx: 0})
			}
			continue
		}
		s := vfC04Step{Kind: rapid.SampledFrom(kinds).Draw(rt, "kind"), Conn: conn, Ch: ch}
		s.NoSettle = rapid.IntRange(0, 3).Draw(rt, "nosettle") == 0
		switch s.Kind {
		case vfC04SubCmd:
			s.Mode = rapid.SampledFrom([]int{0, 0, 0, 0, 1, 1, 1, 1, 1, 1, 1, 2, 2, 3, 3, 3, 4, 4, 5}).Draw(rt, "mode")
			s.GateH = rapid.IntRange(0, 3).Draw(rt, "gateH") == 0
			s.GateP = rapid.IntRange(0, 3).Draw(rt, "gateP") == 0
			s.FailH = rapid.SampledFrom([]int{0, 0, 0, 0, 0, 0, 0, 0, 0, 0, 0, 0, 0, 0, 1, 2}).Draw(rt, "failH")
			s.FailP = rapid.IntRange(0, 19).Draw(rt, "failP") == 0
		case vfC04ClientSub, vfC04NodeSub:
			s.GateH = rapid.IntRange(0, 2).Draw(rt, "gateH") == 0
			s.GateP = rapid.IntRange(0, 2).Draw(rt, "gateP") == 0
			s.FailH = rapid.SampledFrom([]int{0, 0, 0, 0, 0, 0, 0, 0, 0, 0, 0, 0, 0, 0, 1, 2}).Draw(rt, "failH")
			s.FailP = rapid.IntRange(0, 19).Draw(rt, "failP") == 0
		case vfC04UnsubCmd, vfC04ClientUnsub, vfC04NodeUnsub:
			s.GateR = rapid.IntRange(0, 2).Draw(rt, "gateR") == 0
		case vfC04Disconnect, vfC04TransportClose:
			s.Kind = rapid.SampledFrom([]int{vfC04Disconnect, vfC04TransportClose}).Draw(rt, "closeKind")
			s.Quiet = rapid.Bool().Draw(rt, "quiet")
		case vfC04Advance:
			s.AdvMs = rapid.SampledFrom([]int{100, 1000, 2000, 5000, 5000, 6000}).Draw(rt, "adv")
		case vfC04Release:
			s.Idx = rapid.IntRange(0, 5).Draw(rt, "idx")
		case vfC04Publish:
			s.UseDelta = rapid.Bool().Draw(rt, "useDelta")
		case vfC04PubPark:
			s.UseDelta = rapid.Bool().Draw(rt, "useDelta")
			s.Follow = rapid.SampledFrom([]int{0, 0, 1, 2, 3, 4}).Draw(rt, "follow")
			s.Resub = rapid.IntRange(0, 2).Draw(rt, "resub") == 0
			s.NoSettle = false
		}
		if s.Kind == vfC04NodeSub || s.Kind == vfC04NodeUnsub || s.Kind == vfC04PubPark {
			s.User = c.Users[s.Conn]
		}
		c.Steps = append(c.Steps, s)
	}
	return c
}

type vfC04Out struct {
	labels     map[string]bool
	nontrivial bool
	known      []string
	knownEx    string
}

func (o *vfC04Out) label(l string) {
	if o.labels == nil {
		o.labels = map[string]bool{}
	}
	o.labels[l] = true
}


// vfC04Att is one started operation (attempt); it is unfinished until its goroutine returned and, for a subscribe
// command whose callback was deferred, until that callback returned.
type vfC04Att struct {
	rt      *vfC04Rt
	conns   []int
	ch      int // -1 = all channels of the connection(s)
	isSub   bool
	mode    int
	idx     int
	pending int
}

// vfC04Parked is something the harness holds back: a subscribe callback (cb != nil) or a goroutine parked at a gate.
type vfC04Parked struct {
	seq   int
	kind  string // "cb", "p+", "h", "p-"
	conns []int  // connections it is attributed to (released when any of them closes)
	ch    int
	// callback
	att   *vfC04Att
	cb    SubscribeCallback
	reply SubscribeReply
	err   error
	// gate
	c chan struct{}
}

type vfC04Rt struct {
	mu         sync.Mutex
	nch        int
	opsBusy    []int
	subBusy    [][]int // unfinished subscribe attempts per (conn, ch)
	pairBusy   [][]int
	atts       []*vfC04Att
	parked     []*vfC04Parked
	seq        int
	armed      map[string]int
	auto       []bool // transport closed: nothing of this connection parks any more
	frozen     []bool // quiet close in progress / done: no further operations, parked attempt is kept
	finalizing bool
	overlaps   int
	autoRel    int
	pubBusy    int // schedule publications whose Publish call has not returned yet
}

func (a *vfC04Att) done() {
	r := a.rt
	r.mu.Lock()
	defer r.mu.Unlock()
	a.pending--
	if a.pending > 0 {
		return
	}
	for _, c := range a.conns {
		r.opsBusy[c]--
		if a.isSub {
			r.subBusy[c][a.ch]--
		}
		if a.ch >= 0 {
			r.pairBusy[c][a.ch]--
		} else {
			for ch := 0; ch < r.nch; ch++ {
				r.pairBusy[c][ch]--
			}
		}
	}
}

// start registers an attempt and runs f on its own goroutine.
func (r *vfC04Rt) start(conns []int, ch int, isSub bool, mode int, f func(a *vfC04Att)) *vfC04Att {
	a := &vfC04Att{rt: r, conns: conns, ch: ch, isSub: isSub, mode: mode, pending: 1}
	r.mu.Lock()
	a.idx = len(r.atts)
	r.atts = append(r.atts, a)
	for _, c := range conns {
		r.opsBusy[c]++
		if isSub {
			r.subBusy[c][ch]++
		}
		if ch >= 0 {
			if r.pairBusy[c][ch] > 0 {
				r.overlaps++
			}
			r.pairBusy[c][ch]++
		} else {
			for x := 0; x < r.nch; x++ {
				if r.pairBusy[c][x] > 0 {
					r.overlaps++
				}
				r.pairBusy[c][x]++
			}
		}
	}
	r.mu.Unlock()
	go func() {
		defer a.done()
		f(a)
	}()
	return a
}

func (r *vfC04Rt) arm(key string) {
	r.mu.Lock()
	r.armed[key]++
	r.mu.Unlock()
}

// pass parks the calling goroutine when the gate is armed, unless one of the connections it belongs to has its
// transport closed already. conn < 0: the caller is a history read; it is attributed to every connection with an
// unfinished subscribe attempt on that channel.
func (r *vfC04Rt) pass(kind string, conn int, ch int, key string) {
	r.mu.Lock()
	if r.armed[key] <= 0 || r.finalizing {
		r.mu.Unlock()
		return
	}
	var conns []int
	if conn >= 0 {
		conns = []int{conn}
	} else {
		for c := range r.subBusy {
			if r.subBusy[c][ch] > 0 {
				conns = append(conns, c)
			}
		}
	}
	if len(conns) == 0 {
		r.mu.Unlock()
		return
	}
	for _, c := range conns {
		if r.auto[c] {
			r.mu.Unlock()
			return
		}
	}
	r.armed[key]--
	r.seq++
	p := &vfC04Parked{seq: r.seq, kind: kind, conns: conns, ch: ch, c: make(chan struct{})}
	r.parked = append(r.parked, p)
	r.mu.Unlock()
	<-p.c
}

// releaseLocked lets p continue (r.mu held; p already removed from r.parked).
func (r *vfC04Rt) releaseLocked(p *vfC04Parked) {
	if p.cb == nil {
		close(p.c)
		return
	}
	go func() {
		defer p.att.done()
		p.cb(p.reply, p.err)
	}()
}

// releaseAll releases everything attributed to conn (conn < 0: everything).
func (r *vfC04Rt) releaseAllLocked(conn int) int {
	var keep []*vfC04Parked
	n := 0
	for _, p := range r.parked {
		hit := conn < 0
		for _, c := range p.conns {
			if c == conn {
				hit = true
			}
		}
		if hit {
			r.releaseLocked(p)
			n++
		} else {
			keep = append(keep, p)
		}
	}
	r.parked = keep
	return n
}

func (r *vfC04Rt) parkedFor(conn, ch int, kinds ...string) bool {
	r.mu.Lock()
	defer r.mu.Unlock()
	for _, p := range r.parked {
		if p.ch != ch {
			continue
		}
		okKind := false
		for _, k := range kinds {
			if p.kind == k {
				okKind = true
			}
		}
		if !okKind {
			continue
		}
		for _, c := range p.conns {
			if c == conn {
				return true
			}
		}
	}
	return false
}

// vfC04Presence parks AddPresence / RemovePresence (never for a closing client: close() calls RemovePresence with
// connectMu and presenceMu held) and injects AddPresence failures.
type vfC04Presence struct {
	inner   PresenceManager
	w       *vfWorld
	r       *vfC04Rt
	connIdx map[string]int
	chIdx   map[string]int
	mu      sync.Mutex
	fail    map[string]int // "conn:ch" -> number of AddPresence calls to fail
}

func (p *vfC04Presence) failNext(key string) {
	p.mu.Lock()
	p.fail[key]++
	p.mu.Unlock()
}

func (p *vfC04Presence) Presence(ch string) (map[string]*ClientInfo, error) { return p.inner.Presence(ch) }
func (p *vfC04Presence) PresenceStats(ch string) (PresenceStats, error)      { return p.inner.PresenceStats(ch) }
func (p *vfC04Presence) AddPresence(ch string, clientID string, info *ClientInfo) error {
	if c := p.w.connByID(clientID); c != nil {
		if ci, ok := p.chIdx[ch]; ok && !c.Client.closing.Load() {
			p.r.pass("p+", p.connIdx[c.Name], ci, "p+:"+c.Name+":"+ch)
		}
		p.mu.Lock()
		f := p.fail[c.Name+":"+ch] > 0
		if f {
			p.fail[c.Name+":"+ch]--
		}
		p.mu.Unlock()
		if f {
			return fmt.Errorf("vf: injected presence failure")
		}
	}
	return p.inner.AddPresence(ch, clientID, info)
}
func (p *vfC04Presence) RemovePresence(ch string, clientID string, userID string) error {
	if c := p.w.connByID(clientID); c != nil {
		if ci, ok := p.chIdx[ch]; ok && !c.Client.closing.Load() {
			p.r.pass("p-", p.connIdx[c.Name], ci, "p-:"+c.Name+":"+ch)
		}
	}
	return p.inner.RemovePresence(ch, clientID, userID)
}

func vfC04Run(t *testing.T, cs vfC04Case, out *vfC04Out, isKnown func(string) bool) string {
	return vfBubble(t, func() string {
		cfg := Config{ClientPresenceUpdateInterval: time.Hour, ClientChannelPositionCheckDelay: time.Hour}
		w, err := vfNewWorld(cfg, nil)
		if err != nil {
			return "infra: " + err.Error()
		}
		defer w.Close()

		chName := func(ch int) string { return fmt.Sprintf("c%d", ch) }
		userName := func(u int) string { return fmt.Sprintf("u%d", u) }
		optsFor := func(ch int) SubscribeOptions {
			o := SubscribeOptions{EnablePositioning: cs.ChPos[ch], EmitPresence: cs.ChPres[ch]}
			if cs.ChDelta[ch] {
				o.AllowedDeltaTypes = []DeltaType{DeltaTypeFossil}
			}
			return o
		}
		chIndex := map[string]int{}
		for ch := 0; ch < cs.NChans; ch++ {
			chIndex[chName(ch)] = ch
		}
		connIdx := map[string]int{}

		r := &vfC04Rt{nch: cs.NChans, armed: map[string]int{}}
		for i := 0; i < cs.NConns; i++ {
			r.opsBusy = append(r.opsBusy, 0)
			r.subBusy = append(r.subBusy, make([]int, cs.NChans))
			r.pairBusy = append(r.pairBusy, make([]int, cs.NChans))
			r.auto = append(r.auto, false)
			r.frozen = append(r.frozen, false)
			connIdx[fmt.Sprintf("k%d", i)] = i
		}
		pm := &vfC04Presence{inner: w.node.presenceManager, w: w, r: r, connIdx: connIdx, chIdx: chIndex, fail: map[string]int{}}
		w.node.SetPresenceManager(pm)
		var hmu sync.Mutex
		failH := map[string]int{}

		w.broker.Hook = func(op, phase, hch string) error {
			if op != "history" {
				return nil
			}
			ci, ok := chIndex[hch]
			if !ok {
				return nil
			}
			if phase == "after" {
				r.pass("h", -1, ci, "h:"+hch)
				return nil
			}
			hmu.Lock()
			k := failH[hch]
			if k > 0 {
				failH[hch] = 0
			}
			hmu.Unlock()
			switch k {
			case 1:
				return fmt.Errorf("vf: injected history failure")
			case 2:
				return ErrorTooManyRequests
			}
			return nil
		}

		conns := make([]*vfConn, cs.NConns)
		w.Connecting = func(c *vfConn, e ConnectEvent) (ConnectReply, error) {
			rep := ConnectReply{Credentials: &Credentials{UserID: c.User}}
			i := connIdx[c.Name]
			for ch := 0; ch < cs.NChans; ch++ {
				if cs.Init[i][ch] {
					if rep.Subscriptions == nil {
						rep.Subscriptions = map[string]SubscribeOptions{}
					}
					rep.Subscriptions[chName(ch)] = optsFor(ch)
				}
			}
			return rep, nil
		}
		w.OnSubscribe = func(c *vfConn, e SubscribeEvent, cb SubscribeCallback) {
			ch, okCh := chIndex[e.Channel]
			var ai int
			_, _ = fmt.Sscanf(string(e.Data), `{"a":%d}`, &ai)
			ci := connIdx[c.Name]
			r.mu.Lock()
			if !okCh || ai < 0 || ai >= len(r.atts) {
				r.mu.Unlock()
				cb(SubscribeReply{}, ErrorBadRequest)
				return
			}
			a := r.atts[ai]
			mode := a.mode
			if (r.finalizing || r.auto[ci]) && (mode == 1 || mode == 3) {
				mode-- // nothing of this connection may park any more: answer synchronously (ok / error)
			}
			reply := SubscribeReply{Options: optsFor(ch)}
			switch mode {
			case 1, 3:
				var perr error
				if mode == 3 {
					perr = ErrorPermissionDenied
				}
				a.pending++
				r.seq++
				r.parked = append(r.parked, &vfC04Parked{seq: r.seq, kind: "cb", conns: []int{ci}, ch: ch, att: a, cb: cb, reply: reply, err: perr})
				r.mu.Unlock()
				return
			case 4:
				a.pending++
				r.mu.Unlock()
				go func() {
					defer a.done()
					cb(reply, nil)
				}()
				return
			}
			r.mu.Unlock()
			switch mode {
			case 0:
				cb(reply, nil)
			case 2:
				cb(SubscribeReply{}, ErrorPermissionDenied)
			default:
				cb(SubscribeReply{}, DisconnectInvalidToken)
			}
		}

		for i := 0; i < cs.NConns; i++ {
			conns[i] = w.NewConn(vfConnCfg{Name: fmt.Sprintf("k%d", i), User: userName(cs.Users[i]), Proto: cs.Protos[i]})
		}
		for i := 0; i < cs.NConns; i++ {
			conns[i].Connect(nil)
		}
		// close-aware parking: one watcher per connection (exits when the transport is closed, at the latest by w.Close)
		for i := 0; i < cs.NConns; i++ {
			i := i
			go func() {
				<-conns[i].T.closeCh
				r.mu.Lock()
				if !r.frozen[i] {
					r.auto[i] = true
					r.autoRel += r.releaseAllLocked(i)
				}
				r.mu.Unlock()
			}()
		}
		vfSettle()

		closeIssued := make([]bool, cs.NConns)
		settled := true
		settle := func() {
			vfSettle()
			settled = true
		}
		// Runs before w.Close (deferred later = runs earlier): nothing may stay parked when the node shuts down.
		defer func() {
			r.mu.Lock()
			r.finalizing = true
			r.releaseAllLocked(-1)
			r.mu.Unlock()
		}()

		isFrozen := func(c int) bool {
			r.mu.Lock()
			defer r.mu.Unlock()
			return r.frozen[c]
		}
		subAttemptParked := func(c, ch int) bool { return r.parkedFor(c, ch, "cb", "p+", "h") }
		unsubParked := func(c, ch int) bool { return r.parkedFor(c, ch, "p-") }
		usersConns := func(u int) []int {
			var cc []int
			for i := 0; i < cs.NConns; i++ {
				if cs.Users[i] == u && !isFrozen(i) {
					cc = append(cc, i)
				}
			}
			return cc
		}
		armSub := func(c, ch int, s vfC04Step) {
			if s.GateH && cs.ChPos[ch] {
				r.arm("h:" + chName(ch))
			}
			if s.GateP && cs.ChPres[ch] {
				r.arm("p+:" + conns[c].Name + ":" + chName(ch))
			}
			if s.FailH > 0 && cs.ChPos[ch] {
				hmu.Lock()
				failH[chName(ch)] = s.FailH
				hmu.Unlock()
				out.label("history_failure_armed")
			}
			if s.FailP && cs.ChPres[ch] {
				pm.failNext(conns[c].Name + ":" + chName(ch))
				out.label("presence_failure_armed")
			}
		}
		armUnsub := func(c, ch int, s vfC04Step) {
			if s.GateR && cs.ChPres[ch] {
				r.arm("p-:" + conns[c].Name + ":" + chName(ch))
			}
		}
		noteSubWindow := func(c, ch int) {
			if unsubParked(c, ch) {
				out.label("win_subscribe_while_unsubscribe_parked_before_hub_removal")
			}
			if subAttemptParked(c, ch) {
				out.label("win_subscribe_while_subscribe_parked")
			}
		}
		noteUnsubWindow := func(c, ch int) {
			if subAttemptParked(c, ch) {
				out.label("win_unsubscribe_while_subscribe_parked")
			}
		}

		var timeouts int
		var tmu sync.Mutex
		timed := func(f func()) {
			st := time.Now()
			f()
			if time.Since(st) >= 5*time.Second {
				tmu.Lock()
				timeouts++
				tmu.Unlock()
			}
		}

		// ---- oracle -----------------------------------------------------------------------------------------
		type pairState struct {
			live, sub, resv, entry bool
			cGen, hGen             uint64
		}
		readPair := func(c, ch int) pairState {
			cl := conns[c].Client
			name := chName(ch)
			var ps pairState
			cl.mu.RLock()
			cctx, ok := cl.channels[name]
			ps.live = cl.status != statusClosed
			_, inMap := cl.mapSubscribing[name]
			cl.mu.RUnlock()
			if cl.closing.Load() {
				ps.live = false
			}
			ps.sub = ok && channelHasFlag(cctx.flags, flagSubscribed)
			ps.resv = (ok && !ps.sub) || inMap
			ps.cGen = cctx.subGen
			sh := w.node.hub.subShards[index(name, numHubShards)]
			sh.mu.RLock()
			e, eok := sh.subs[name][cl.ID()]
			sh.mu.RUnlock()
			ps.entry = eok
			ps.hGen = e.subGen
			return ps
		}
		checkState := func(c int, where string) string {
			cl := conns[c].Client
			for ch := 0; ch < cs.NChans; ch++ {
				ps := readPair(c, ch)
				name := chName(ch)
				if api := cl.IsSubscribed(name); api != ps.sub {
					return fmt.Sprintf("%s: k%d IsSubscribed(%s)=%v disagrees with its channel context (subscribed flag %v)", where, c, name, api, ps.sub)
				}
				if ps.resv {
					return fmt.Sprintf("%s: k%d still holds an uncommitted subscribe reservation for %s after every operation settled (live=%v hubEntry=%v)", where, c, name, ps.live, ps.entry)
				}
				if !ps.live {
					if ps.entry {
						return fmt.Sprintf("%s: closed connection k%d still has a routing entry for %s (gen %d)", where, c, name, ps.hGen)
					}
					if ps.sub {
						return fmt.Sprintf("%s: closed connection k%d still reports itself subscribed to %s and has no routing entry", where, c, name)
					}
					continue
				}
				if ps.sub && !ps.entry {
					return fmt.Sprintf("%s: k%d reports subscribed to %s (gen %d) but the node has no routing entry for it", where, c, name, ps.cGen)
				}
				if !ps.sub && ps.entry {
					return fmt.Sprintf("%s: k%d does not report %s as subscribed but the node still routes it (hub entry gen %d)", where, c, name, ps.hGen)
				}
				if ps.sub && ps.cGen != ps.hGen {
					return fmt.Sprintf("%s: k%d subscribed to %s with generation %d but the routing entry carries generation %d", where, c, name, ps.cGen, ps.hGen)
				}
			}
			return ""
		}
		idle := func(c int) bool {
			r.mu.Lock()
			defer r.mu.Unlock()
			return r.opsBusy[c] == 0
		}
		allIdle := func() bool {
			for c := 0; c < cs.NConns; c++ {
				if !idle(c) {
					return false
				}
			}
			r.mu.Lock()
			defer r.mu.Unlock()
			return len(r.parked) == 0 && r.pubBusy == 0
		}
		markerN := 0
		pubN := 0
		fullCheck := func(where string) string {
			for c := 0; c < cs.NConns; c++ {
				if m := checkState(c, where); m != "" {
					return m
				}
			}
			subAt := make([][]bool, cs.NConns)
			for c := 0; c < cs.NConns; c++ {
				subAt[c] = make([]bool, cs.NChans)
				for ch := 0; ch < cs.NChans; ch++ {
					ps := readPair(c, ch)
					subAt[c][ch] = ps.live && ps.sub
				}
			}
			for ch := 0; ch < cs.NChans; ch++ {
				name := chName(ch)
				want := 0
				for c := 0; c < cs.NConns; c++ {
					if subAt[c][ch] {
						want++
					}
				}
				if got := w.node.hub.NumSubscribers(name); got != want {
					return fmt.Sprintf("%s: NumSubscribers(%s)=%d but %d live connections report it as subscribed", where, name, got, want)
				}
			}
			// marker publications: one without offset (routed by the hub entry alone) and one with history (offset > 0,
			// which additionally passes the client's subscribed-flag / position checks)
			// A delta subscriber gets the payload re-encoded (JSON string / fossil patch), so a marker is recognised as "one
			// more publication push on that channel" rather than by its payload.
			pubFrames := func(c, ch int) (int, string) {
				n := 0
				for _, f := range conns[c].Frames() {
					if f.Err != nil {
						return 0, fmt.Sprintf("%s: k%d wrote an undecodable frame: %v", where, c, f.Err)
					}
					if p := f.Reply.Push; p != nil && p.Pub != nil && p.Channel == chName(ch) {
						n++
					}
				}
				return n, ""
			}
			for ch := 0; ch < cs.NChans; ch++ {
				for k := 0; k < 2; k++ {
					before := make([]int, cs.NConns)
					for c := 0; c < cs.NConns; c++ {
						n, m := pubFrames(c, ch)
						if m != "" {
							return m
						}
						before[c] = n
					}
					markerN++
					data := fmt.Sprintf(`{"marker":%d}`, markerN)
					var perr error
					if k == 0 {
						_, perr = w.node.Publish(chName(ch), []byte(data))
					} else {
						_, perr = w.node.Publish(chName(ch), []byte(data), WithHistory(100, 10*time.Minute))
					}
					if perr != nil {
						return "infra: marker publish failed: " + perr.Error()
					}
					vfSettle()
					time.Sleep(10 * time.Millisecond)
					vfSettle()
					for c := 0; c < cs.NConns; c++ {
						n, m := pubFrames(c, ch)
						if m != "" {
							return m
						}
						want := 0
						if subAt[c][ch] {
							want = 1
						}
						if got := n - before[c]; got != want {
							return fmt.Sprintf("%s: k%d (reports subscribed to %s: %v) received marker %s (history=%v) %d time(s), expected %d; frames: %s",
								where, c, chName(ch), subAt[c][ch], data, k == 1, got, want, vfTrunc(vfRenderFrames(conns[c].Frames()), 1500))
						}
					}
				}
			}
			return ""
		}

		// ---- schedule -----------------------------------------------------------------------------------------
		for si, s := range cs.Steps {
			chn := chName(s.Ch)
			forceSettle := false
			switch s.Kind {
			case vfC04SubCmd:
				c := s.Conn
				if isFrozen(c) {
					continue
				}
				noteSubWindow(c, s.Ch)
				armSub(c, s.Ch, s)
				conn := conns[c]
				deltaReq := ""
				if cs.ChDelta[s.Ch] {
					deltaReq = string(DeltaTypeFossil)
				}
				r.start([]int{c}, s.Ch, true, s.Mode, func(a *vfC04Att) {
					conn.Cmd(&protocol.Command{Id: conn.NextID(), Subscribe: &protocol.SubscribeRequest{Channel: chn, Delta: deltaReq, Data: []byte(fmt.Sprintf(`{"a":%d}`, a.idx))}})
				})
			case vfC04UnsubCmd:
				c := s.Conn
				if isFrozen(c) {
					continue
				}
				noteUnsubWindow(c, s.Ch)
				armUnsub(c, s.Ch, s)
				conn := conns[c]
				r.start([]int{c}, s.Ch, false, 0, func(a *vfC04Att) {
					timed(func() {
						conn.Cmd(&protocol.Command{Id: conn.NextID(), Unsubscribe: &protocol.UnsubscribeRequest{Channel: chn}})
					})
				})
			case vfC04ClientSub:
				c := s.Conn
				if isFrozen(c) {
					continue
				}
				noteSubWindow(c, s.Ch)
				armSub(c, s.Ch, s)
				conn := conns[c]
				o := optsFor(s.Ch)
				r.start([]int{c}, s.Ch, true, 0, func(a *vfC04Att) {
					_ = conn.Client.Subscribe(chn, WithPositioning(o.EnablePositioning), WithEmitPresence(o.EmitPresence))
				})
			case vfC04ClientUnsub:
				c := s.Conn
				if isFrozen(c) {
					continue
				}
				noteUnsubWindow(c, s.Ch)
				armUnsub(c, s.Ch, s)
				conn := conns[c]
				r.start([]int{c}, s.Ch, false, 0, func(a *vfC04Att) {
					timed(func() { conn.Client.Unsubscribe(chn) })
				})
			case vfC04NodeSub:
				cc := usersConns(s.User)
				if len(cc) == 0 {
					continue
				}
				for _, c := range cc {
					noteSubWindow(c, s.Ch)
					armSub(c, s.Ch, s)
				}
				o := optsFor(s.Ch)
				u := userName(s.User)
				r.start(cc, s.Ch, true, 0, func(a *vfC04Att) {
					_ = w.node.Subscribe(u, chn, WithPositioning(o.EnablePositioning), WithEmitPresence(o.EmitPresence))
				})
			case vfC04NodeUnsub:
				cc := usersConns(s.User)
				if len(cc) == 0 {
					continue
				}
				for _, c := range cc {
					noteUnsubWindow(c, s.Ch)
					armUnsub(c, s.Ch, s)
				}
				u := userName(s.User)
				r.start(cc, s.Ch, false, 0, func(a *vfC04Att) {
					timed(func() { _ = w.node.Unsubscribe(u, chn) })
				})
			case vfC04Disconnect, vfC04TransportClose:
				c := s.Conn
				if !settled {
					settle()
				}
				if closeIssued[c] || conns[c].Client.closing.Load() {
					continue
				}
				closeIssued[c] = true
				for ch := 0; ch < cs.NChans; ch++ {
					if subAttemptParked(c, ch) {
						out.label("win_close_while_subscribe_parked")
					}
					if unsubParked(c, ch) {
						out.label("win_close_while_unsubscribe_parked")
					}
				}
				if s.Quiet {
					// quiet close: exactly one unfinished operation on the connection, a parked subscribe attempt
					// attributed to this connection alone
					r.mu.Lock()
					n := 0
					for _, p := range r.parked {
						if len(p.conns) == 1 && p.conns[0] == c && p.kind != "p-" {
							n++
						}
					}
					if n == 1 && r.opsBusy[c] == 1 {
						r.frozen[c] = true
					}
					fr := r.frozen[c]
					r.mu.Unlock()
					if fr {
						out.label("win_quiet_close_runs_into_its_own_wait_gate")
						forceSettle = true
					}
				}
				conn := conns[c]
				kind := s.Kind
				r.start([]int{c}, -1, false, 0, func(a *vfC04Att) {
					if kind == vfC04Disconnect {
						conn.Client.Disconnect()
					} else {
						conn.TransportClose()
					}
				})
			case vfC04Advance:
				r.mu.Lock()
				np := len(r.parked)
				r.mu.Unlock()
				if np > 0 && s.AdvMs >= 5000 {
					out.label("advanced_past_wait_gate_with_something_parked")
				}
				time.Sleep(time.Duration(s.AdvMs) * time.Millisecond)
			case vfC04Release:
				r.mu.Lock()
				if len(r.parked) == 0 {
					r.mu.Unlock()
					continue
				}
				i := s.Idx % len(r.parked)
				p := r.parked[i]
				r.parked = append(r.parked[:i:i], r.parked[i+1:]...)
				r.releaseLocked(p)
				r.mu.Unlock()
				out.label("released_" + p.kind)
				for _, c := range p.conns {
					if conns[c].Client.closing.Load() {
						out.label("released_after_close_started")
					}
				}
			case vfC04Publish, vfC04PubPark:
				pubN++
				data := []byte(fmt.Sprintf(`{"pub":%d}`, pubN))
				opts := []PublishOption{WithHistory(100, 10*time.Minute)}
				if s.UseDelta {
					opts = append(opts, WithDelta(true))
				}
				publish := func() {
					r.mu.Lock()
					r.pubBusy++
					r.mu.Unlock()
					go func() {
						_, _ = w.node.Publish(chn, data, opts...)
						r.mu.Lock()
						r.pubBusy--
						r.mu.Unlock()
					}()
				}
				c := s.Conn
				park := s.Kind == vfC04PubPark
				if park {
					if !settled {
						settle()
					}
					// Only a positioned subscription calls the transport between releasing and re-taking Client.mu (a
					// non-positioned one calls it with Client.mu held), and nothing else of the world may be in flight:
					// the parked delivery holds the broker's publish lock and the hub shard's read lock.
					park = cs.ChPos[s.Ch] && allIdle() && !isFrozen(c) && !conns[c].Client.closing.Load() && conns[c].Client.IsSubscribed(chn)
				}
				if !park {
					publish()
					out.label("publication_in_flight")
					break
				}
				gate := "dpf:" + conns[c].Name
				w.Gates.Arm(gate, 1)
				publish()
				vfSettle()
				if w.Gates.Waiting(gate) == 0 {
					w.Gates.Disarm(gate)
					break
				}
				out.label("win_delivery_parked_between_state_read_and_flag_update")
				sh := w.node.hub.subShards[index(chn, numHubShards)]
				sh.mu.RLock()
				isDelta := sh.subs[chn][conns[c].Client.ID()].deltaType == DeltaTypeFossil
				sh.mu.RUnlock()
				if isDelta {
					out.label("win_parked_delivery_is_to_delta_subscriber")
				}
				// From here to the release nothing may wait for quiescence or for the clock: the follow-up operation
				// blocks (on a mutex) at the hub shard lock the parked broadcast holds.
				spinUntil := func(cond func() bool) {
					for i := 0; i < 5000 && !cond(); i++ {
						runtime.Gosched()
					}
				}
				entryGone := func() bool {
					cl := conns[c].Client
					cl.mu.RLock()
					defer cl.mu.RUnlock()
					_, ok := cl.channels[chn]
					return !ok
				}
				conn := conns[c]
				u := userName(s.User)
				switch s.Follow {
				case 0:
					r.start([]int{c}, s.Ch, false, 0, func(a *vfC04Att) {
						conn.Cmd(&protocol.Command{Id: conn.NextID(), Unsubscribe: &protocol.UnsubscribeRequest{Channel: chn}})
					})
				case 1:
					r.start([]int{c}, s.Ch, false, 0, func(a *vfC04Att) { conn.Client.Unsubscribe(chn) })
				case 2:
					r.start(usersConns(s.User), s.Ch, false, 0, func(a *vfC04Att) { _ = w.node.Unsubscribe(u, chn) })
				default:
					closeIssued[c] = true
					follow := s.Follow
					r.start([]int{c}, -1, false, 0, func(a *vfC04Att) {
						if follow == 3 {
							conn.TransportClose()
						} else {
							conn.Client.Disconnect()
						}
					})
				}
				spinUntil(entryGone)
				if entryGone() {
					out.label("win_unsubscribed_inside_parked_delivery")
				}
				if s.Resub && s.Follow < 3 {
					deltaReq := ""
					if cs.ChDelta[s.Ch] {
						deltaReq = string(DeltaTypeFossil)
					}
					r.start([]int{c}, s.Ch, true, 0, func(a *vfC04Att) {
						conn.Cmd(&protocol.Command{Id: conn.NextID(), Subscribe: &protocol.SubscribeRequest{Channel: chn, Delta: deltaReq, Data: []byte(fmt.Sprintf(`{"a":%d}`, a.idx))}})
					})
					for i := 0; i < 300; i++ {
						runtime.Gosched()
					}
					out.label("win_resubscribed_inside_parked_delivery")
				}
				w.Gates.Release(gate)
			case vfC04Checkpoint:
				settle()
				if allIdle() {
					if m := fullCheck(fmt.Sprintf("checkpoint at step %d", si)); m != "" {
						return m
					}
					out.label("intermediate_full_check")
				}
			}
			if s.NoSettle && !forceSettle && s.Kind != vfC04Checkpoint {
				settled = false
				continue
			}
			settle()
			// intermediate state agreement for idle connections
			for c := 0; c < cs.NConns; c++ {
				if idle(c) {
					if m := checkState(c, fmt.Sprintf("after step %d (%s), connection idle", si, s)); m != "" {
						return m
					}
				}
			}
		}

		// ---- drain ---------------------------------------------------------------------------------------------
		settle()
		r.mu.Lock()
		r.finalizing = true
		r.mu.Unlock()
		for round := 0; round < 4; round++ {
			r.mu.Lock()
			r.releaseAllLocked(-1)
			r.mu.Unlock()
			vfSettle()
			time.Sleep(6 * time.Second)
			vfSettle()
		}
		if !allIdle() {
			r.mu.Lock()
			busy := fmt.Sprint(r.opsBusy)
			np := len(r.parked)
			r.mu.Unlock()
			return fmt.Sprintf("operations still in flight 24 s after everything was released (busy per connection %s, parked %d)", busy, np)
		}
		if m := fullCheck("final settled point"); m != "" {
			return m
		}

		// ---- classification ------------------------------------------------------------------------------------
		r.mu.Lock()
		ov := r.overlaps
		ar := r.autoRel
		r.mu.Unlock()
		if ov > 0 {
			out.nontrivial = true
			out.label("overlapping_ops_on_same_pair")
		}
		if ov >= 3 {
			out.label("overlaps>=3")
		}
		if ar > 0 {
			out.label("parked_released_by_connection_close")
		}
		tmu.Lock()
		if timeouts > 0 {
			out.label("win_wait_gate_timeout_fired")
		}
		tmu.Unlock()
		nsub, nclosed := 0, 0
		for c := 0; c < cs.NConns; c++ {
			if closed, d := conns[c].T.Closed(); closed {
				nclosed++
				out.label(fmt.Sprintf("closed_code_%d", d.Code))
			}
			for ch := 0; ch < cs.NChans; ch++ {
				if ps := readPair(c, ch); ps.live && ps.sub {
					nsub++
				}
			}
		}
		if nsub > 0 {
			out.label("final_some_pair_subscribed")
		}
		if nclosed > 0 {
			out.label("final_some_connection_closed")
		}
		if nclosed < cs.NConns {
			out.label("final_some_connection_live")
		}
		_ = isKnown
		return ""
	})
}

func TestVF_C04(t *testing.T) {
	vfCheck(t, "C04", func(rt *rapid.T, c *vfCase) string {
		cs := vfC04Gen(rt)
		c.Describe(cs.String())
		out := &vfC04Out{}
		msg := vfC04Run(t, cs, out, c.IsKnown)
		ls := make([]string, 0, len(out.labels))
		for l := range out.labels {
			ls = append(ls, l)
		}
		sort.Strings(ls)
		for _, l := range ls {
			c.Label(l)
		}
		for _, k := range out.known {
			c.Known(k, out.knownEx)
		}
		if out.nontrivial {
			c.Nontrivial(c.desc)
		}
		return msg
	})
}
