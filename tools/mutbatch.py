#!/usr/bin/env python3
"""Run a list of mutants: tools/mutbatch.py tools/mutants/<file>.json  -> prints CAUGHT/NOT-CAUGHT per mutant.
Each entry: {"prop": "C01", "file": "client.go", "old": "...", "new": "...", "tier": "quick", "note": "..."}"""
import json, subprocess, sys
ents = json.load(open(sys.argv[1]))
only = set(sys.argv[2:])
for e in ents:
    if only and e["prop"] not in only:
        continue
    r = subprocess.run(["/verif/tools/mut.sh", e["prop"], e.get("tier", "quick"), e["file"], e["old"], e["new"]],
                       capture_output=True, text=True)
    last = [l for l in r.stdout.splitlines() if l.startswith("mutant rc=")]
    viol = [l.strip()[:220] for l in r.stdout.splitlines() if "VF-VIOLATION" in l][:1]
    print("%s | %s | %s | %s" % (e["prop"], e.get("note", ""), last[-1] if last else r.stdout[-200:], viol[0] if viol else ""), flush=True)
