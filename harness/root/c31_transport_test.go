package PKGNAME

// C31 (part c) — websocketTransport.Close sends the disconnect as a close frame whenever it fits in a control frame.
//
// A real *websocket.Conn is obtained by running websocket.Upgrader.Upgrade against an in-memory hijackable
// ResponseWriter whose net.Conn double records everything written. websocketTransport.Close(Disconnect{Code, Reason})
// is then called with codes over the whole uint32 range and reason lengths 0..200 bytes (inside a synctest bubble: the
// transport waits up to 5 s of virtual time for the closing handshake unless the grace channel is already closed).
// Oracle: if Code fits 16 bits and 2+len(Reason) <= 125 the wire carries exactly one unmasked close frame whose
// payload is the big-endian code followed by the reason bytes, then the connection is closed; otherwise no frame (or,
// for codes that do not fit 16 bits, nothing is asserted about the payload) and the connection is closed. A second
// Close writes nothing.
// Exempt by RFC / documentation: code 1005 MUST NOT appear on the wire (an empty close frame is right); code 3000
// (DisconnectConnectionClosed: the peer is already gone) closes without a frame.

import (
	"bufio"
	"bytes"
	"fmt"
	"io"
	"net"
	"net/http"
	"net/url"
	"strings"
	"testing"
	"time"

	"github.com/centrifugal/centrifuge/internal/websocket"
	"pgregory.net/rapid"
)

type vfC31TAddr struct{}

func (vfC31TAddr) Network() string { return "vf" }
func (vfC31TAddr) String() string  { return "vf" }

type vfC31TConn struct {
	out    []byte
	closed int
	wAfter int // writes after Close
}

func (c *vfC31TConn) Read(b []byte) (int, error) { return 0, io.EOF }
func (c *vfC31TConn) Write(b []byte) (int, error) {
	if c.closed > 0 {
		c.wAfter++
		return 0, net.ErrClosed
	}
	c.out = append(c.out, b...)
	return len(b), nil
}
func (c *vfC31TConn) Close() error                       { c.closed++; return nil }
func (c *vfC31TConn) LocalAddr() net.Addr                { return vfC31TAddr{} }
func (c *vfC31TConn) RemoteAddr() net.Addr               { return vfC31TAddr{} }
func (c *vfC31TConn) SetDeadline(t time.Time) error      { return nil }
func (c *vfC31TConn) SetReadDeadline(t time.Time) error  { return nil }
func (c *vfC31TConn) SetWriteDeadline(t time.Time) error { return nil }

type vfC31TRW struct {
	hdr  http.Header
	code int
	conn *vfC31TConn
}

func (w *vfC31TRW) Header() http.Header         { return w.hdr }
func (w *vfC31TRW) Write(b []byte) (int, error) { return len(b), nil }
func (w *vfC31TRW) WriteHeader(code int)        { w.code = code }
func (w *vfC31TRW) Hijack() (net.Conn, *bufio.ReadWriter, error) {
	return w.conn, bufio.NewReadWriter(bufio.NewReaderSize(w.conn, 4096), bufio.NewWriterSize(w.conn, 4096)), nil
}

func vfC31TReason(rt *rapid.T, n int) string {
	kind := rapid.IntRange(0, 2).Draw(rt, "reasonkind")
	var sb strings.Builder
	for sb.Len() < n {
		switch {
		case kind == 1 && n-sb.Len() >= 2 && sb.Len()%5 == 0:
			sb.WriteString("é")
		case kind == 2 && n-sb.Len() >= 3 && sb.Len()%7 == 0:
			sb.WriteString("€")
		default:
			sb.WriteByte("connection closed by server side "[sb.Len()%33])
		}
	}
	return sb.String()
}

func TestVF_C31_Transport(t *testing.T) {
	vfCheck(t, "C31", func(rt *rapid.T, c *vfCase) string {
		var code uint32
		switch rapid.IntRange(0, 6).Draw(rt, "codeclass") {
		case 0:
			code = uint32(rapid.IntRange(3000, 4999).Draw(rt, "code_app"))
		case 1:
			code = rapid.SampledFrom([]uint32{3000, 3001, 3004, 3005, 3008, 3012, 3500, 3501, 3503, 3507, 4000, 4999}).Draw(rt, "code_builtin")
		case 2:
			code = uint32(rapid.IntRange(0, 2999).Draw(rt, "code_low"))
		case 3:
			code = uint32(rapid.IntRange(5000, 65535).Draw(rt, "code_high"))
		case 4:
			code = rapid.SampledFrom([]uint32{0, 1, 999, 1000, 1001, 1005, 1006, 1015, 2999, 5000, 65535, 65536, 65536 + 3001, 1 << 31, ^uint32(0)}).Draw(rt, "code_edge")
		case 5:
			code = rapid.Uint32().Draw(rt, "code_any")
		default:
			code = uint32(rapid.IntRange(3001, 3013).Draw(rt, "code_nonterminal"))
		}
		var rlen int
		if rapid.Bool().Draw(rt, "nearlimit") {
			rlen = rapid.IntRange(118, 128).Draw(rt, "rlen_near")
		} else {
			rlen = rapid.IntRange(0, 200).Draw(rt, "rlen")
		}
		reason := vfC31TReason(rt, rlen)
		graceClosed := rapid.Bool().Draw(rt, "graceClosed")
		twice := rapid.Bool().Draw(rt, "twice")
		compression := rapid.Bool().Draw(rt, "compression")
		wbuf := rapid.SampledFrom([]int{0, 1, 64, 4096}).Draw(rt, "wbuf")
		c.Describe(fmt.Sprintf("code=%d reasonLen=%d reason=%q graceClosed=%v twice=%v compression=%v wbuf=%d", code, len(reason), reason, graceClosed, twice, compression, wbuf))
		if d := len(reason) - 123; d >= -3 && d <= 3 {
			c.Nontrivial(fmt.Sprintf("%d/%d/%v/%v", code, len(reason), graceClosed, twice))
		}

		var wire []byte
		var closed, wAfter int
		var elapsed time.Duration
		verdict := vfBubble(t, func() string {
			nc := &vfC31TConn{}
			rw := &vfC31TRW{hdr: http.Header{}, conn: nc}
			req := &http.Request{Method: "GET", URL: &url.URL{Path: "/connection/websocket"}, Proto: "HTTP/1.1", ProtoMajor: 1, ProtoMinor: 1,
				Header: http.Header{}, Host: "example.com", Body: http.NoBody}
			req.Header["Connection"] = []string{"Upgrade"}
			req.Header["Upgrade"] = []string{"websocket"}
			req.Header["Sec-Websocket-Version"] = []string{"13"}
			req.Header["Sec-Websocket-Key"] = []string{"dGhlIHNhbXBsZSBub25jZQ=="}
			if compression {
				req.Header["Sec-Websocket-Extensions"] = []string{"permessage-deflate"}
			}
			up := websocket.Upgrader{WriteBufferSize: wbuf, EnableCompression: compression}
			conn, _, err := up.Upgrade(rw, req, nil)
			if err != nil {
				return "SETUP: upgrade failed: " + err.Error()
			}
			if !bytes.HasSuffix(nc.out, []byte("\r\n\r\n")) {
				return "SETUP: no handshake response"
			}
			mark := len(nc.out)
			graceCh := make(chan struct{})
			if graceClosed {
				close(graceCh)
			}
			tr := newWebsocketTransport(conn, websocketTransportOptions{protoType: ProtocolTypeJSON, protoMajor: 1, writeTimeout: time.Second}, graceCh, false)
			start := time.Now()
			_ = tr.Close(Disconnect{Code: code, Reason: reason})
			elapsed = time.Since(start)
			first := len(nc.out)
			if twice {
				_ = tr.Close(Disconnect{Code: 3001, Reason: "again"})
				if len(nc.out) != first {
					return "a second Close wrote to the connection"
				}
			}
			// writes after Close must not reach the wire
			_ = tr.Write([]byte(`{}`))
			if len(nc.out) != first {
				return "transport.Write after Close reached the wire"
			}
			wire = append([]byte{}, nc.out[mark:]...)
			closed, wAfter = nc.closed, nc.wAfter
			return ""
		})
		if strings.HasPrefix(verdict, "SETUP:") {
			rt.Fatalf("harness: %s", verdict)
		}
		if verdict != "" {
			return verdict
		}
		_ = wAfter
		if closed == 0 {
			return "the connection was not closed"
		}
		if elapsed >= time.Second {
			c.Label("waited-for-closing-handshake")
		}
		// parse what is on the wire: nothing, or exactly one unmasked close frame
		var payload []byte
		hasFrame := false
		if len(wire) > 0 {
			if len(wire) < 2 || wire[0] != 0x88 || wire[1]&0x80 != 0 || int(wire[1]&0x7f) > 125 || len(wire) != 2+int(wire[1]&0x7f) {
				return fmt.Sprintf("bytes on the wire are not exactly one well-formed server close frame: %x", wire)
			}
			hasFrame = true
			payload = wire[2:]
		}
		fits := code <= 0xFFFF && 2+len(reason) <= 125
		want := append([]byte{byte(code >> 8), byte(code)}, reason...)
		switch {
		case code == DisconnectConnectionClosed.Code:
			c.Label("code-3000-connection-closed")
			if hasFrame && !bytes.Equal(payload, want) {
				return fmt.Sprintf("close frame payload %x does not carry the disconnect (code %d)", payload, code)
			}
		case code == 1005:
			c.Label("code-1005")
			if hasFrame && len(payload) != 0 && !bytes.Equal(payload, want) {
				return fmt.Sprintf("close frame payload %x for code 1005", payload)
			}
		case code > 0xFFFF:
			c.Label("code-over-16-bits")
		case fits:
			c.Label("fits")
			if !hasFrame {
				return fmt.Sprintf("disconnect (code %d, %d byte reason) fits in a control frame but no close frame was written", code, len(reason))
			}
			if !bytes.Equal(payload, want) {
				return fmt.Sprintf("close frame payload is code %d reason %q, want code %d reason %q", int(payload[0])<<8|int(payload[1]), payload[2:], code, reason)
			}
		default:
			c.Label("too-long")
			if hasFrame {
				return fmt.Sprintf("disconnect with a %d byte reason does not fit, yet a close frame (%d bytes payload) was written", len(reason), len(payload))
			}
		}
		if graceClosed {
			c.Label("grace-already-closed")
		}
		return ""
	})
}
