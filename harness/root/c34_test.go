package PKGNAME

// C34 — Redis cluster keys for one operation share a hash slot.
//
// Scope: the statement is about Redis Cluster mode, so every shard here is RedisShard{isCluster: true}; nothing is
// asserted about the non-cluster key layout. Prefixes never contain braces (operator-chosen; a brace in the prefix
// would itself be a hash tag). Channels are non-empty (the receiving side uses "" as its "unsupported" marker).
//
// For one drawn (prefix, partitions, precomputed tags, lists/streams, channel, idempotency key, map options) the
// harness calls the real key builders on struct-literal RedisBroker / RedisMapBroker / RedisPresenceManager values,
// grouped exactly as the script call sites group them (presence: through the real *ScriptKeysArgs functions; broker
// and map broker: transliterated from publish/history/Publish/Remove/Clear/read*/cleanup call sites, including the
// nil-key substitution), and checks with an independent hash-tag + bitwise CRC16-XMODEM implementation that all
// KEYS of one operation and the PUB/SUB channel the script publishes to map to one slot; that the receiving side's
// extractChannel inverts messageChannelID; and that the library's own redisSlot agrees with the independent one.

import (
	"fmt"
	"strings"
	"testing"

	"github.com/centrifugal/centrifuge/internal/redispartition"
	"pgregory.net/rapid"
)

// ---- independent Redis Cluster key -> slot (Redis cluster spec, keyHashSlot) ------------------------------------

func vfC34CRC16(s string) uint16 {
	var crc uint16
	for i := 0; i < len(s); i++ {
		crc ^= uint16(s[i]) << 8
		for k := 0; k < 8; k++ {
			if crc&0x8000 != 0 {
				crc = crc<<1 ^ 0x1021
			} else {
				crc <<= 1
			}
		}
	}
	return crc
}

// vfC34Slot: first '{'; first '}' to its right; if there is at least one byte between them only that part is hashed.
func vfC34Slot(key string) int {
	if s := strings.IndexByte(key, '{'); s >= 0 {
		if e := strings.IndexByte(key[s+1:], '}'); e > 0 {
			key = key[s+1 : s+1+e]
		}
	}
	return int(vfC34CRC16(key) % 16384)
}

func vfC34SelfCheck() string {
	if vfC34CRC16("123456789") != 0x31C3 {
		return fmt.Sprintf("harness self-check: CRC16(123456789)=%#x, want 0x31c3", vfC34CRC16("123456789"))
	}
	// published examples: CLUSTER KEYSLOT foo = 12182; {user1000}.following and {user1000}.followers share user1000's slot;
	// foo{}{bar} hashes whole; foo{{bar}}zap hashes "{bar"; foo{bar}{zap} hashes "bar".
	if vfC34Slot("foo") != 12182 || vfC34Slot("{user1000}.following") != vfC34Slot("user1000") ||
		vfC34Slot("foo{}{bar}") != int(vfC34CRC16("foo{}{bar}")%16384) || vfC34Slot("foo{{bar}}zap") != int(vfC34CRC16("{bar")%16384) ||
		vfC34Slot("foo{bar}{zap}") != int(vfC34CRC16("bar")%16384) {
		return "harness self-check: hash-tag rule examples from the Redis cluster specification fail"
	}
	return ""
}

// ---- generators -------------------------------------------------------------------------------------------------

var vfC34ChanFrags = []string{"a", "b", "news", "chat", ".", ":", "{", "}", "{}", "}{", "{a}", "{{", "}}", "$", "#", "/", " ", "-", "_",
	"é", "日本", "🙂", "0", "7", "16", "user#42", "x.y", "index", "\x00", "*"}

func vfC34Channel(rt *rapid.T, label string) string {
	n := rapid.IntRange(1, 6).Draw(rt, label+"_n")
	var sb strings.Builder
	for i := 0; i < n; i++ {
		sb.WriteString(rapid.SampledFrom(vfC34ChanFrags).Draw(rt, label+"_f"))
	}
	if rapid.IntRange(0, 24).Draw(rt, label+"_long") == 0 {
		sb.WriteString(strings.Repeat(rapid.SampledFrom([]string{"x", "ab", "}", "{", "."}).Draw(rt, label+"_rep"), rapid.IntRange(50, 300).Draw(rt, label+"_replen")))
	}
	return sb.String()
}

var vfC34Prefixes = []string{"centrifuge", "c", "my.app", "a:b", "app-1_x", "пре", "x.client.y", "1"}

type vfC34Cfg struct {
	Prefix      string
	Parts       int
	Precomputed bool
	Lists       bool
}

func (g vfC34Cfg) String() string {
	return fmt.Sprintf("{prefix=%q partitions=%d precomputedTags=%v lists=%v}", g.Prefix, g.Parts, g.Precomputed, g.Lists)
}

func vfC34Tags(g vfC34Cfg) []string {
	if !g.Precomputed {
		return nil
	}
	tags, err := redispartition.FindTags(g.Parts)
	if err != nil {
		panic(err)
	}
	return tags
}

// the fields NewRedisBroker / NewRedisMapBroker / NewRedisPresenceManager derive from the configuration
func vfC34Broker(g vfC34Cfg) *RedisBroker {
	return &RedisBroker{config: RedisBrokerConfig{Prefix: g.Prefix, UseLists: g.Lists, NumShardedPubSubPartitions: g.Parts,
		UsePrecomputedPartitionTags: g.Precomputed}, partitionTags: vfC34Tags(g), messagePrefix: g.Prefix + redisClientChannelPrefix}
}

func vfC34MapBroker(g vfC34Cfg) *RedisMapBroker {
	return &RedisMapBroker{conf: RedisMapBrokerConfig{Prefix: g.Prefix, NumShardedPubSubPartitions: g.Parts,
		UsePrecomputedPartitionTags: g.Precomputed}, partitionTags: vfC34Tags(g), messagePrefix: g.Prefix + redisClientChannelPrefix}
}

type vfC34Op struct {
	Name  string
	Wraps bool // the builders of this operation wrap the channel itself into braces: ...{channel}...
	Keys  []string
}

const vfC34KeyLeadingBrace = "C34:channel-leading-closing-brace-empties-hashtag"

func vfC34Strs(ids ...channelID) []string {
	out := make([]string, len(ids))
	for i, id := range ids {
		out[i] = string(id)
	}
	return out
}

func TestVF_C34(t *testing.T) {
	if msg := vfC34SelfCheck(); msg != "" {
		t.Fatal(msg)
	}
	sizes := redispartition.PrecomputedSizes()
	vfCheck(t, "C34", func(rt *rapid.T, c *vfCase) string {
		g := vfC34Cfg{Prefix: rapid.SampledFrom(vfC34Prefixes).Draw(rt, "prefix"), Lists: rapid.IntRange(0, 2).Draw(rt, "lists") == 0}
		switch rapid.IntRange(0, 4).Draw(rt, "layout") {
		case 0, 1:
			c.Label("layout:cluster_unsharded")
		case 2, 3:
			g.Parts = rapid.SampledFrom([]int{1, 2, 3, 7, 16, 64, 100, 1024, 4096, 16384}).Draw(rt, "parts")
			c.Label("layout:cluster_sharded_index_tags")
		default:
			g.Parts, g.Precomputed = rapid.SampledFrom(sizes).Draw(rt, "psize"), true
			c.Label("layout:cluster_sharded_precomputed_tags")
		}
		ch := vfC34Channel(rt, "ch")
		idem := rapid.SampledFrom([]string{"", "", "k1", "{", "}", "{x}", "a.b", "}{", "日"}).Draw(rt, "idempotency")
		skipPubSub := rapid.IntRange(0, 9).Draw(rt, "skip_pubsub") == 0
		// map broker option space that decides which KEYS are real and which are the nil placeholder
		mStreamless := rapid.Bool().Draw(rt, "map_streamless")
		mKeyed := rapid.Bool().Draw(rt, "map_keyed")
		mOrdered := rapid.Bool().Draw(rt, "map_ordered")
		mTTL := rapid.Bool().Draw(rt, "map_keyttl")
		mIdem := rapid.SampledFrom([]string{"", "i1", "{", "}x"}).Draw(rt, "map_idempotency")
		rnd := rapid.StringN(0, 24, 48).Draw(rt, "random_key") + rapid.SampledFrom([]string{"", "{", "}", "{}", "{a}", "{{b}}", "}{"}).Draw(rt, "random_tail") +
			rapid.StringN(0, 6, 12).Draw(rt, "random_key2")

		c.Describe(fmt.Sprintf("cfg=%v channel=%q idempotency=%q skipPubSub=%v map(streamless=%v keyed=%v ordered=%v ttl=%v idem=%q) random=%q",
			g, ch, idem, skipPubSub, mStreamless, mKeyed, mOrdered, mTTL, mIdem, rnd))
		leading := strings.HasPrefix(ch, "}")
		if strings.ContainsAny(ch, "{}.") {
			c.Nontrivial(g.String() + "|" + ch)
		}
		if leading {
			c.Label("channel:starts_with_closing_brace")
		}
		if strings.Contains(ch, "{") {
			c.Label("channel:has_open_brace")
		}
		if strings.Contains(ch, "}") {
			c.Label("channel:has_close_brace")
		}
		if strings.Contains(ch, ".") {
			c.Label("channel:has_dot")
		}
		if len(ch) > 50 {
			c.Label("channel:long")
		}

		shard := &RedisShard{isCluster: true}
		var ops []vfC34Op

		// ---- RedisBroker -----------------------------------------------------------------------------------------
		b := vfC34Broker(g)
		wraps := g.Parts == 0
		bChan := string(b.messageChannelID(shard, ch))
		var histKey channelID
		if b.config.UseLists {
			histKey = b.historyListKey(shard, ch)
		} else {
			histKey = b.historyStreamKey(shard, ch)
		}
		// publish with history: script.Exec(KEYS = streamKey, historyMetaKey, resultKey; ARGV[4] = publishChannelStr)
		op := vfC34Op{Name: "RedisBroker.publish(history)", Wraps: wraps, Keys: vfC34Strs(histKey, b.historyMetaKey(shard, ch), b.resultCacheKey(shard, ch, idem))}
		if !skipPubSub {
			op.Keys = append(op.Keys, bChan)
		}
		ops = append(ops, op)
		// publish without history but with idempotency key: publishIdempotentScript.Exec(KEYS = resultKey; ARGV[2] = channel)
		if idem != "" {
			op = vfC34Op{Name: "RedisBroker.publish(idempotent,no history)", Wraps: wraps, Keys: vfC34Strs(b.resultCacheKey(shard, ch, idem))}
			if !skipPubSub {
				op.Keys = append(op.Keys, bChan)
			}
			ops = append(ops, op)
		}
		// history: history{Stream,List}Script.Exec(KEYS = historyKey, historyMetaKey)
		ops = append(ops, vfC34Op{Name: "RedisBroker.history", Wraps: wraps, Keys: vfC34Strs(histKey, b.historyMetaKey(shard, ch))})

		if got := b.extractChannel(true, channelID(bChan)); got != ch {
			return fmt.Sprintf("RedisBroker.extractChannel(%q) = %q, published to channel %q", bChan, got, ch)
		}

		// ---- RedisPresenceManager (real call-site key lists) -------------------------------------------------------
		m := &RedisPresenceManager{config: RedisPresenceManagerConfig{Prefix: g.Prefix}}
		info := &ClientInfo{ClientID: "c", UserID: "u"}
		for _, pk := range []struct {
			name string
			f    func() ([]string, []string, error)
		}{
			{"RedisPresenceManager.addPresence", func() ([]string, []string, error) { return m.addPresenceScriptKeysArgs(shard, ch, "c", info) }},
			{"RedisPresenceManager.removePresence", func() ([]string, []string, error) { return m.removePresenceScriptKeysArgs(shard, ch, "c", "u") }},
			{"RedisPresenceManager.presence", func() ([]string, []string, error) { return m.presenceScriptKeysArgs(shard, ch) }},
			{"RedisPresenceManager.presenceStats", func() ([]string, []string, error) { return m.presenceStatsScriptKeysArgs(shard, ch) }},
		} {
			keys, _, err := pk.f()
			if err != nil {
				return pk.name + ": " + err.Error()
			}
			ops = append(ops, vfC34Op{Name: pk.name, Wraps: true, Keys: keys})
		}

		// ---- RedisMapBroker (cluster mode requires partitions > 0) --------------------------------------------------
		if g.Parts > 0 {
			e := vfC34MapBroker(g)
			eChan := e.messageChannelID(shard, ch)
			nilKey := e.buildKey(shard, ch, ":nil:")
			or := func(k string) string {
				if k == "" {
					return nilKey
				}
				return k
			}
			// Publish
			var streamKey, metaKey, resultKey, stateHashKey, stateOrderKey, stateExpireKey, stateMetaKey, cleanupRegKey string
			if mIdem != "" {
				resultKey = e.resultCacheKey(shard, ch, mIdem)
			}
			if !mStreamless {
				streamKey, metaKey = e.streamKey(shard, ch), e.metaKey(shard, ch)
			}
			if mKeyed {
				stateHashKey = e.stateHashKey(shard, ch)
				if !mStreamless {
					stateMetaKey = e.stateMetaKey(shard, ch)
				}
				if mOrdered {
					stateOrderKey = e.stateOrderKey(shard, ch)
				}
				stateExpireKey = e.stateExpireKey(shard, ch)
			}
			if mTTL && mKeyed && stateExpireKey != "" {
				cleanupRegKey = e.cleanupRegistrationKeyForChannel(shard, ch)
			}
			op = vfC34Op{Name: "RedisMapBroker.Publish", Keys: []string{or(streamKey), or(metaKey), or(resultKey), or(stateHashKey), or(stateOrderKey),
				or(stateExpireKey), or(stateMetaKey), or(cleanupRegKey)}}
			if !skipPubSub {
				op.Keys = append(op.Keys, eChan)
			}
			ops = append(ops, op)
			// Remove
			streamKey, metaKey, stateMetaKey, resultKey = "", "", "", ""
			if !mStreamless {
				streamKey, metaKey, stateMetaKey = e.streamKey(shard, ch), e.metaKey(shard, ch), e.stateMetaKey(shard, ch)
			}
			if mIdem != "" {
				resultKey = e.resultCacheKey(shard, ch, mIdem)
			}
			op = vfC34Op{Name: "RedisMapBroker.Remove", Keys: []string{or(streamKey), or(metaKey), or(resultKey), e.stateHashKey(shard, ch), nilKey,
				e.stateExpireKey(shard, ch), or(stateMetaKey), nilKey}}
			if !skipPubSub {
				op.Keys = append(op.Keys, eChan)
			}
			ops = append(ops, op)
			ops = append(ops,
				vfC34Op{Name: "RedisMapBroker.Clear(DEL)", Keys: []string{e.streamKey(shard, ch), e.metaKey(shard, ch), e.stateHashKey(shard, ch),
					e.stateOrderKey(shard, ch), e.stateExpireKey(shard, ch), e.stateMetaKey(shard, ch)}},
				vfC34Op{Name: "RedisMapBroker.readUnordered", Keys: []string{e.stateHashKey(shard, ch), e.stateExpireKey(shard, ch), e.metaKey(shard, ch), e.stateMetaKey(shard, ch)}},
				vfC34Op{Name: "RedisMapBroker.readOrdered", Keys: []string{e.stateHashKey(shard, ch), e.stateOrderKey(shard, ch), e.stateExpireKey(shard, ch),
					e.metaKey(shard, ch), e.stateMetaKey(shard, ch)}},
				vfC34Op{Name: "RedisMapBroker.readStream", Keys: []string{e.streamKey(shard, ch), e.metaKey(shard, ch)}},
				vfC34Op{Name: "RedisMapBroker.findExpired", Keys: []string{e.stateHashKey(shard, ch), e.stateExpireKey(shard, ch)}},
				// cleanup key of a channel found by the cleanup worker = the key the add script registered it under
				vfC34Op{Name: "RedisMapBroker.batchRemoveExpired", Keys: []string{e.stateHashKey(shard, ch), e.stateExpireKey(shard, ch), e.streamKey(shard, ch),
					e.metaKey(shard, ch), e.cleanupRegistrationKeyForChannel(shard, ch), e.stateOrderKey(shard, ch), e.stateMetaKey(shard, ch)}},
			)
			if !skipPubSub {
				ops[len(ops)-1].Keys = append(ops[len(ops)-1].Keys, eChan)
			}
			if got := e.extractChannel(eChan); got != ch {
				return fmt.Sprintf("RedisMapBroker.extractChannel(%q) = %q, published to channel %q", eChan, got, ch)
			}
		}

		// ---- oracle ---------------------------------------------------------------------------------------------------
		for _, op := range ops {
			c.Label("op:" + op.Name)
			slots := make([]int, len(op.Keys))
			same := true
			for i, k := range op.Keys {
				slots[i] = vfC34Slot(k)
				if slots[i] != slots[0] {
					same = false
				}
				if own := int(redisSlot(k)); own != slots[i] {
					return fmt.Sprintf("redisSlot(%q) = %d, independent Redis hash-tag/CRC16 computation gives %d", k, own, slots[i])
				}
			}
			if same {
				continue
			}
			var sb strings.Builder
			for i, k := range op.Keys {
				fmt.Fprintf(&sb, " %q->%d", k, slots[i])
			}
			if op.Wraps && leading {
				if c.Known(vfC34KeyLeadingBrace, fmt.Sprintf("%s cfg=%v channel=%q:%s", op.Name, g, ch, sb.String())) {
					continue
				}
				return fmt.Sprintf("%s: keys of one operation hash to different slots for channel %q:%s [finding key %s]", op.Name, ch, sb.String(), vfC34KeyLeadingBrace)
			}
			return fmt.Sprintf("%s: keys of one operation hash to different slots for channel %q:%s", op.Name, ch, sb.String())
		}
		if own, ind := int(redisSlot(rnd)), vfC34Slot(rnd); own != ind {
			return fmt.Sprintf("redisSlot(%q) = %d, independent computation gives %d", rnd, own, ind)
		}
		return ""
	})
}
