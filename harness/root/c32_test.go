package PKGNAME

// C32 — SSE and HTTP-stream framing deliver each message intact.
// The real handlers are driven with an in-memory ResponseWriter inside a synctest bubble; the captured body is parsed
// by an independent WHATWG EventSource parser (SSE) or a newline / varint-length splitter (HTTP stream).

import (
	"bytes"
	"runtime"
	"context"
	"encoding/binary"
	"encoding/json"
	"fmt"
	"net/http"
	"reflect"
	"strings"
	"sync"
	"testing"
	"time"

	"github.com/centrifugal/protocol"
	"pgregory.net/rapid"
)

type vfC32Case struct {
	Transport int // 0 SSE (POST), 1 SSE (GET cf_connect), 2 HTTP stream JSON, 3 HTTP stream Protobuf
	Others    []int // transports of further connections subscribed to the same channel (the hub shares one encoded message between them)
	SingleP   bool  // run the case with GOMAXPROCS=1: pooled encoders / buffers released by one connection are reused by the next one
	Slow      int   // index of the connection whose ResponseWriter holds every Write until all publications were issued (0 = the first), -1 none
	Payloads  [][]byte
	Burst     []bool // payload i is published without settling after payload i-1 (batches in WriteMany)
	WriteMax  int    // MaxMessagesInFrame
}

func (c vfC32Case) String() string {
	var ps []string
	for i, p := range c.Payloads {
		b := ""
		if c.Burst[i] {
			b = "+"
		}
		ps = append(ps, fmt.Sprintf("%s%q", b, vfTrunc(string(p), 80)))
	}
	return fmt.Sprintf("transport=%d others=%v slow=%d singleP=%v maxInFrame=%d payloads=[%s]", c.Transport, c.Others, c.Slow, c.SingleP, c.WriteMax, strings.Join(ps, " "))
}

var vfC32WS = []string{"", "", " ", "\t", "\r", "\n", "\r\n", " \r ", "\n\n"}

func vfC32JSON(rt *rapid.T, depth int, label string) string {
	ws := func(l string) string { return rapid.SampledFrom(vfC32WS).Draw(rt, label+l) }
	kind := rapid.IntRange(0, 6).Draw(rt, label+"k")
	if depth <= 0 && kind >= 5 {
		kind = kind % 5
	}
	switch kind {
	case 0:
		return rapid.SampledFrom([]string{"0", "-1", "1.5e3", "123456789012345678"}).Draw(rt, label+"n")
	case 1:
		return rapid.SampledFrom([]string{"true", "false", "null"}).Draw(rt, label+"b")
	case 2, 3:
		return rapid.SampledFrom([]string{`""`, `"a"`, `"line\nbreak"`, `"cr\rlf"`, `"tab\t"`, `"data: x"`, `"  "`, `"é😀"`, `"\\n"`, `": colon"`, `"\u000d"`}).Draw(rt, label+"s")
	case 4:
		return "[" + ws("a") + "]"
	case 5:
		n := rapid.IntRange(1, 3).Draw(rt, label+"an")
		parts := make([]string, n)
		for i := range parts {
			parts[i] = ws(fmt.Sprintf("p%d", i)) + vfC32JSON(rt, depth-1, fmt.Sprintf("%s.%d", label, i)) + ws(fmt.Sprintf("q%d", i))
		}
		return "[" + strings.Join(parts, ",") + "]"
	default:
		n := rapid.IntRange(1, 3).Draw(rt, label+"on")
		parts := make([]string, n)
		for i := range parts {
			parts[i] = ws(fmt.Sprintf("p%d", i)) + fmt.Sprintf(`"k%d"`, i) + ws(fmt.Sprintf("c%d", i)) + ":" + ws(fmt.Sprintf("d%d", i)) + vfC32JSON(rt, depth-1, fmt.Sprintf("%s.%d", label, i)) + ws(fmt.Sprintf("q%d", i))
		}
		return "{" + strings.Join(parts, ",") + "}"
	}
}

func vfC32Gen(rt *rapid.T) vfC32Case {
	c := vfC32Case{}
	c.Transport = rapid.SampledFrom([]int{0, 0, 1, 2, 2, 3}).Draw(rt, "transport")
	c.WriteMax = rapid.SampledFrom([]int{0, 0, 1, 2, -1}).Draw(rt, "maxInFrame")
	n := rapid.IntRange(1, 6).Draw(rt, "n")
	for i := 0; i < n; i++ {
		var p []byte
		if c.Transport == 3 && rapid.Bool().Draw(rt, "binary") {
			p = rapid.SliceOfN(rapid.Byte(), 0, 40).Draw(rt, "bin")
			if len(p) == 0 {
				p = []byte{0}
			}
		} else {
			doc := vfC32JSON(rt, 2, fmt.Sprintf("p%d", i))
			// carry a sequence number so the oracle can pair events with publications
			p = []byte(fmt.Sprintf(`{"seq":%d,%s"v":%s}`, i, rapid.SampledFrom(vfC32WS).Draw(rt, "wsx"), doc))
		}
		c.Payloads = append(c.Payloads, p)
		c.Burst = append(c.Burst, i > 0 && rapid.Bool().Draw(rt, "burst"))
	}
	c.Slow = -1
	allJSON := true
	for _, p := range c.Payloads {
		if !json.Valid(p) {
			allJSON = false // a non-JSON payload disconnects JSON connections (inappropriate protocol): Protobuf only
		}
	}
	kinds := []int{0, 0, 1, 2, 3}
	if !allJSON {
		kinds = []int{3}
	}
	no := rapid.SampledFrom([]int{0, 0, 1, 1, 2}).Draw(rt, "others")
	for i := 0; i < no; i++ {
		c.Others = append(c.Others, rapid.SampledFrom(kinds).Draw(rt, "otherTransport"))
	}
	if no > 0 {
		c.Slow = rapid.IntRange(-1, no).Draw(rt, "slow")
		c.SingleP = rapid.Bool().Draw(rt, "singleP")
	}
	return c
}

// ---- in-memory response writer -------------------------------------------------------------------------------

type vfC32RW struct {
	mu     sync.Mutex
	hdr    http.Header
	status int
	body   bytes.Buffer
	flush  int
	gate   chan struct{}
}

func (w *vfC32RW) Hold() {
	w.mu.Lock()
	w.gate = make(chan struct{})
	w.mu.Unlock()
}
func (w *vfC32RW) Release() {
	w.mu.Lock()
	if w.gate != nil {
		close(w.gate)
		w.gate = nil
	}
	w.mu.Unlock()
}

func (w *vfC32RW) Header() http.Header { return w.hdr }
func (w *vfC32RW) WriteHeader(s int) {
	w.mu.Lock()
	if w.status == 0 {
		w.status = s
	}
	w.mu.Unlock()
}
func (w *vfC32RW) Write(b []byte) (int, error) {
	// A held writer parks on a channel (durably blocked in the bubble, no lock held) until the test releases it: the
	// other connections' writers run meanwhile. (A virtual-time Sleep here would freeze the bubble's clock as soon as
	// anything waits on the transport mutex.)
	w.mu.Lock()
	g := w.gate
	w.mu.Unlock()
	if g != nil {
		<-g
	}
	w.mu.Lock()
	defer w.mu.Unlock()
	if w.status == 0 {
		w.status = 200
	}
	return w.body.Write(b)
}
func (w *vfC32RW) Flush()                              { w.mu.Lock(); w.flush++; w.mu.Unlock() }
func (w *vfC32RW) SetWriteDeadline(time.Time) error    { return nil }
func (w *vfC32RW) Body() []byte {
	w.mu.Lock()
	defer w.mu.Unlock()
	return append([]byte(nil), w.body.Bytes()...)
}

// ---- independent WHATWG EventSource parser ----------------------------------------------------------------------
// https://html.spec.whatwg.org/multipage/server-sent-events.html#event-stream-interpretation
func vfC32ParseSSE(stream []byte) []string {
	s := string(stream)
	s = strings.TrimPrefix(s, "\xef\xbb\xbf")
	var lines []string
	cur := strings.Builder{}
	for i := 0; i < len(s); i++ {
		ch := s[i]
		if ch == '\r' {
			lines = append(lines, cur.String())
			cur.Reset()
			if i+1 < len(s) && s[i+1] == '\n' {
				i++
			}
			continue
		}
		if ch == '\n' {
			lines = append(lines, cur.String())
			cur.Reset()
			continue
		}
		cur.WriteByte(ch)
	}
	// an incomplete trailing line is discarded by the spec (no dispatch at EOF without a blank line)
	var events []string
	var data []string
	haveData := false
	for _, l := range lines {
		if l == "" {
			if haveData {
				events = append(events, strings.Join(data, "\n"))
			}
			data, haveData = nil, false
			continue
		}
		if strings.HasPrefix(l, ":") {
			continue
		}
		field, value := l, ""
		if i := strings.IndexByte(l, ':'); i >= 0 {
			field, value = l[:i], l[i+1:]
			value = strings.TrimPrefix(value, " ")
		}
		if field == "data" {
			data = append(data, value)
			haveData = true
		}
	}
	return events
}

func vfC32JSONEqual(a, b []byte) bool {
	var x, y any
	da := json.NewDecoder(bytes.NewReader(a))
	da.UseNumber()
	db := json.NewDecoder(bytes.NewReader(b))
	db.UseNumber()
	if da.Decode(&x) != nil || db.Decode(&y) != nil {
		return false
	}
	return reflect.DeepEqual(x, y)
}

type vfC32Out struct {
	labels     []string
	nontrivial bool
	known      []string
	knownEx    string
}

func vfC32Run(t *testing.T, cs vfC32Case, out *vfC32Out, isKnown func(string) bool) string {
	if cs.SingleP {
		defer runtime.GOMAXPROCS(runtime.GOMAXPROCS(1))
		out.labels = append(out.labels, "single_P_schedule")
	}
	return vfBubble(t, func() string {
		ch := "ch"
		w, err := vfNewWorld(Config{}, func(w *vfWorld) {
			// connections created by the HTTP handlers are not vfConns: supply the connect reply directly
			w.node.OnConnecting(func(ctx context.Context, e ConnectEvent) (ConnectReply, error) {
				return ConnectReply{Credentials: &Credentials{UserID: "u"}, Subscriptions: map[string]SubscribeOptions{ch: {}},
					MaxMessagesInFrame: cs.WriteMax}, nil
			})
		})
		if err != nil {
			return "infra: " + err.Error()
		}
		defer w.Close()
		type c32conn struct {
			tr     int
			rw     *vfC32RW
			cancel context.CancelFunc
			done   chan struct{}
		}
		noPing := PingPongConfig{PingInterval: -1, PongTimeout: -1}
		start := func(tr int, slow bool) *c32conn {
			rw := &vfC32RW{hdr: http.Header{}}
			ctx, cancel := context.WithCancel(context.Background())
			var req *http.Request
			var handler http.Handler
			switch tr {
			case 0:
				req, _ = http.NewRequestWithContext(ctx, http.MethodPost, "http://x/sse", strings.NewReader(`{"id":1,"connect":{}}`))
				handler = NewSSEHandler(w.node, SSEConfig{PingPongConfig: noPing})
			case 1:
				req, _ = http.NewRequestWithContext(ctx, http.MethodGet, "http://x/sse?cf_connect=%7B%22id%22%3A1%2C%22connect%22%3A%7B%7D%7D", nil)
				handler = NewSSEHandler(w.node, SSEConfig{PingPongConfig: noPing})
			case 2:
				req, _ = http.NewRequestWithContext(ctx, http.MethodPost, "http://x/stream", strings.NewReader(`{"id":1,"connect":{}}`))
				handler = NewHTTPStreamHandler(w.node, HTTPStreamConfig{PingPongConfig: noPing})
			case 3:
				cmd := &protocol.Command{Id: 1, Connect: &protocol.ConnectRequest{}}
				raw, _ := cmd.MarshalVT()
				var buf bytes.Buffer
				var lb [binary.MaxVarintLen64]byte
				n := binary.PutUvarint(lb[:], uint64(len(raw)))
				buf.Write(lb[:n])
				buf.Write(raw)
				req, _ = http.NewRequestWithContext(ctx, http.MethodPost, "http://x/stream", &buf)
				req.Header.Set("Content-Type", "application/octet-stream")
				handler = NewHTTPStreamHandler(w.node, HTTPStreamConfig{PingPongConfig: noPing})
			}
			cn := &c32conn{tr: tr, rw: rw, cancel: cancel, done: make(chan struct{})}
			go func() { defer close(cn.done); handler.ServeHTTP(rw, req) }()
			vfSettle()
			if slow {
				rw.Hold() // connected and subscribed; from now on its writes wait for the release below
			}
			return cn
		}
		conns := []*c32conn{start(cs.Transport, cs.Slow == 0)}
		for i, tr := range cs.Others {
			conns = append(conns, start(tr, cs.Slow == i+1))
		}
		stopAll := func() {
			for _, cn := range conns {
				cn.cancel()
				<-cn.done
			}
		}
		batches := 0
		for i, p := range cs.Payloads {
			if !cs.Burst[i] {
				vfSettle()
			} else {
				batches++
			}
			if _, err := w.node.Publish(ch, p); err != nil {
				for _, cn := range conns {
					cn.rw.Release()
				}
				stopAll()
				return fmt.Sprintf("publish %d failed: %v", i, err)
			}
		}
		vfSettle()
		for _, cn := range conns {
			cn.rw.Release()
		}
		vfSettle()
		time.Sleep(500 * time.Millisecond)
		vfSettle()
		var bodies [][]byte
		for _, cn := range conns {
			bodies = append(bodies, cn.rw.Body())
		}
		stopAll()

		hasCRLF := false
		for _, p := range cs.Payloads {
			if bytes.ContainsAny(p, "\r\n") {
				hasCRLF = true
			}
		}
		if hasCRLF || batches > 0 {
			out.nontrivial = true
		}
		out.labels = append(out.labels, []string{"sse_post", "sse_get", "http_stream_json", "http_stream_protobuf"}[cs.Transport])
		if len(cs.Others) > 0 {
			out.labels = append(out.labels, "several_connections_share_the_broadcast")
			if cs.Slow >= 0 {
				out.labels = append(out.labels, "one_connection_writes_slowly")
			}
		}
		if hasCRLF {
			out.labels = append(out.labels, "payload_with_raw_cr_or_lf")
		}
		if batches > 0 {
			out.labels = append(out.labels, "burst_publish")
		}

		for ci, cn := range conns {
			tr, body := cn.tr, bodies[ci]
			m := func() string {
		// ---- split the body into records with the standards-conforming client parser --------------------------------
		var records [][]byte
		switch tr {
		case 0, 1:
			for _, e := range vfC32ParseSSE(body) {
				records = append(records, []byte(e))
			}
		case 2:
			for _, l := range bytes.Split(body, []byte("\n")) {
				if len(l) > 0 {
					records = append(records, l)
				}
			}
		case 3:
			rest := body
			for len(rest) > 0 {
				l, n := binary.Uvarint(rest)
				if n <= 0 || int(l) > len(rest)-n {
					return fmt.Sprintf("connection %d: protobuf stream: bad length prefix at %d bytes before the end; body %q", ci, len(rest), vfTrunc(string(body), 300))
				}
				records = append(records, rest[n:n+int(l)])
				rest = rest[n+int(l):]
			}
		}
		// ---- decode each record and pair with what the server sent ---------------------------------------------------
		want := len(cs.Payloads) + 1 // connect reply + one push per publication
		fail := func(msg string) string {
			full := fmt.Sprintf("connection %d (transport %d): %s; body=%q", ci, tr, msg, vfTrunc(string(body), 600))
			if (tr == 0 || tr == 1) && bytes.ContainsRune(bytes.Join(cs.Payloads, nil), '\r') {
				key := "C32:sse-raw-cr-in-json-payload-splits-event"
				if isKnown(key) {
					out.known = append(out.known, key)
					out.knownEx = full
					return ""
				}
				return "[" + key + "] " + full
			}
			return full
		}
		if len(records) != want {
			return fail(fmt.Sprintf("client parser extracted %d events/records, server sent %d messages", len(records), want))
		}
		for i, rec := range records {
			var rep protocol.Reply
			var derr error
			if tr == 3 {
				derr = rep.UnmarshalVT(rec)
			} else {
				derr = json.Unmarshal(rec, &rep)
			}
			if derr != nil {
				return fail(fmt.Sprintf("record %d does not decode: %v (%q)", i, derr, vfTrunc(string(rec), 200)))
			}
			if i == 0 {
				if rep.Connect == nil || rep.Id != 1 {
					return fail(fmt.Sprintf("record 0 is not the connect reply: %s", vfRenderReply(&rep)))
				}
				continue
			}
			if rep.Push == nil || rep.Push.Pub == nil || rep.Push.Channel != ch {
				return fail(fmt.Sprintf("record %d is not a publication push: %s", i, vfRenderReply(&rep)))
			}
			pub := cs.Payloads[i-1]
			if tr == 3 {
				if !bytes.Equal(rep.Push.Pub.Data, pub) {
					return fail(fmt.Sprintf("record %d carries payload %q, published %q", i, rep.Push.Pub.Data, pub))
				}
			} else if !vfC32JSONEqual(rep.Push.Pub.Data, pub) {
				return fail(fmt.Sprintf("record %d carries payload %q, published %q (not equal as JSON values)", i, rep.Push.Pub.Data, pub))
			}
		}
				return ""
			}()
			if m != "" {
				return m
			}
		}
		return ""
	})
}

func TestVF_C32(t *testing.T) {
	vfCheck(t, "C32", func(rt *rapid.T, c *vfCase) string {
		cs := vfC32Gen(rt)
		c.Describe(cs.String())
		out := &vfC32Out{}
		msg := vfC32Run(t, cs, out, c.IsKnown)
		for _, l := range out.labels {
			c.Label(l)
		}
		for _, k := range out.known {
			c.Known(k, out.knownEx)
		}
		if out.nontrivial {
			c.Nontrivial(c.desc)
		}
		return msg
	})
}
