#!/bin/bash
# usage: tools/mut.sh <Cxx> <tier> <file> <old-literal> <new-literal>   (or: <Cxx> <tier> --patch <file.diff>)
# Applies a mutation in a scratch worktree of /repo HEAD (outside /repo and /verif), runs the check there, removes it.
set -u
prop=$1; tier=$2; shift 2
wt=$(mktemp -d /tmp/vfmut.XXXXXX)
git -C /repo worktree add -q --detach "$wt" HEAD || exit 3
cleanup() { git -C /repo worktree remove --force "$wt" 2>/dev/null; rm -rf "$wt"; }
trap cleanup EXIT
if [ "$1" = "--patch" ]; then
  git -C "$wt" apply "$2" || { echo "PATCH FAILED"; exit 3; }
else
  python3 - "$wt/$1" "$2" "$3" <<'PY' || exit 3
import sys
p,old,new=sys.argv[1:4]
s=open(p).read()
if s.count(old)<1:
    print("MUTATION: pattern not found"); sys.exit(1)
s=s.replace(old,new,1)
open(p,'w').write(s)
PY
fi
(cd "$wt" && GOFLAGS=-mod=mod GOPROXY=off go build ./... ) || { echo "MUTANT DOES NOT BUILD"; exit 3; }
VF_REPO="$wt" VF_BUILD_TAG="mut$$" /verif/vf "$tier" "$prop" > "$wt.out" 2>&1
rc=$?
grep -E "^(OK|VIOLATION|INFRA|KNOWN)" "$wt.out" | head -5
grep -E "VF-VIOLATION" "$wt.out" | head -2
echo "mutant rc=$rc ($( [ $rc = 1 ] && echo CAUGHT || echo NOT-CAUGHT ))"
rm -f "$wt.out"
