package PKGNAME

// C05 — Nothing of a connection survives its end.
// A bystander connection is set up, a snapshot of every registry of the node is taken, then a subject connection
// runs ONE operation that is parked at a drawn gate, is ended by a drawn cause while parked, the gate is released
// and virtual time advanced. Oracle: the snapshot afterwards equals the snapshot before.

import (
	"context"
	"errors"
	"fmt"
	"runtime"
	"sort"
	"strings"
	"sync"
	"testing"
	"time"

	"github.com/centrifugal/centrifuge/internal/saferand"
	"github.com/centrifugal/protocol"
	"github.com/prometheus/client_golang/prometheus"
	dto "github.com/prometheus/client_model/go"
	"pgregory.net/rapid"
)

const (
	vfC05OpConnect = iota
	vfC05OpClientSub
	vfC05OpServerSub
	vfC05OpTick
	vfC05OpMapSub
	vfC05OpSPSub
	vfC05OpTrack
)

var vfC05OpNames = []string{"connect", "clientSubscribe", "serverSubscribe", "presenceTick", "mapSubscribe", "sharedPollSubscribe", "track"}

const (
	vfC05GConnecting = iota
	vfC05GCallback
	vfC05GBrokerSub
	vfC05GPresence
	vfC05GHistory
	vfC05GWrite
	vfC05GPublishJoin
	vfC05GMapState
	vfC05GMapStream
	vfC05GMapPresence
	vfC05GMapIdle
	vfC05GTrack
)

var vfC05GateNames = []string{"connectingHandler", "subscribeCallback", "brokerSubscribe", "addPresence", "history",
	"replyWrite", "publishJoin", "mapStateRead", "mapStreamRead", "mapPresencePublish", "mapBetweenPages", "trackHandler"}

const (
	vfC05CTransportClose = iota
	vfC05CClientDisconnect
	vfC05CNodeDisconnect
	vfC05CStale
	vfC05CSlow
	vfC05CWriteErr
	vfC05CExpire
)

var vfC05CauseNames = []string{"transportClose", "clientDisconnect", "nodeDisconnect", "staleTimer", "slowConsumer", "writeError", "expiry"}

var vfC05Chans = []string{"pa", "pb", "solo"}

const (
	vfC05KeyMapPresence  = "C05:map-client-presence-published-after-close"
	vfC05KeyLatePresence = "C05:map-or-shared-poll-subscribe-adds-presence-after-close"
	vfC05KeyLateTrack    = "C05:track-joins-keyed-hub-after-close"
)

type vfC05Case struct {
	Uni        bool
	Proto      ProtocolType
	RWQ        bool
	Conc       int
	SameUser   bool
	JoinLeave  bool
	Positioned bool
	MapPres    bool // subscriptions also carry MapClientPresenceChannel / MapUserPresenceChannel
	ByMap      bool // the bystander also holds a map subscription to "m1"
	ByTrack    bool // the bystander also holds a shared-poll subscription to "sp1" and tracks key k1
	Paged      bool // map subscribe: the state has two entries and the page size is one (two commands)
	FailAfter  bool // the backend call parked at the gate returns an error once released (closed connection => canceled call)
	Op         int
	Gate       int
	GateCh     int
	Pre        int // bitmask over vfC05Chans: committed before the operation (connect op: connect-time subscriptions)
	PreMode    int // 0 connect-time server-side, 1 client-side commands
	Cause      int
	Hold       int // seconds between the close and the gate release (gates that hold no mutex only)
}

func (c vfC05Case) pre() []string {
	var out []string
	for i, ch := range vfC05Chans {
		if c.Pre&(1<<i) != 0 {
			out = append(out, ch)
		}
	}
	return out
}

// gateChannel is the channel the parked operation works on.
func (c vfC05Case) gateChannel() string {
	switch c.Op {
	case vfC05OpMapSub:
		return "m1"
	case vfC05OpSPSub, vfC05OpTrack:
		return "sp1"
	}
	return vfC05Chans[c.GateCh]
}

func (c vfC05Case) String() string {
	return fmt.Sprintf("uni=%v proto=%s rwq=%v tickConcurrency=%d sameUser=%v joinLeave=%v positioned=%v mapPresence=%v bystanderMap=%v bystanderTrack=%v paged=%v failAfterRelease=%v pre=%v preMode=%d op=%s gate=%s gateCh=%s cause=%s hold=%ds",
		c.Uni, c.Proto, c.RWQ, c.Conc, c.SameUser, c.JoinLeave, c.Positioned, c.MapPres, c.ByMap, c.ByTrack, c.Paged, c.FailAfter, c.pre(), c.PreMode,
		vfC05OpNames[c.Op], vfC05GateNames[c.Gate], c.gateChannel(), vfC05CauseNames[c.Cause], c.Hold)
}

// mutexHeld: the goroutine parked at this gate holds a sync.Mutex that close() needs (presenceMu for the tick,
// the writer mutexes for a transport write): never wait on the virtual clock while it is parked.
func (c vfC05Case) mutexHeld() bool {
	return c.Op == vfC05OpTick || c.Gate == vfC05GWrite
}

// vfC05Pick draws a (nearly) uniform element: rapid's integer and SampledFrom generators favour small indices, which
// starves the later entries of the op / gate / cause tables.
func vfC05Pick(rt *rapid.T, label string, xs []int) int {
	v := 0
	for _, b := range rapid.SliceOfN(rapid.Bool(), 6, 6).Draw(rt, label) {
		v <<= 1
		if b {
			v |= 1
		}
	}
	return xs[v%len(xs)]
}

func vfC05Gen(rt *rapid.T) vfC05Case {
	c := vfC05Case{}
	c.Uni = rapid.IntRange(0, 4).Draw(rt, "uni") == 0
	c.Proto = rapid.SampledFrom([]ProtocolType{ProtocolTypeJSON, ProtocolTypeProtobuf}).Draw(rt, "proto")
	c.RWQ = rapid.Bool().Draw(rt, "rwq")
	c.Conc = rapid.SampledFrom([]int{0, 0, 3}).Draw(rt, "conc")
	c.SameUser = rapid.Bool().Draw(rt, "sameUser")
	c.JoinLeave = rapid.Bool().Draw(rt, "joinLeave")
	c.Positioned = rapid.Bool().Draw(rt, "positioned")
	c.MapPres = rapid.IntRange(0, 2).Draw(rt, "mapPres") == 0
	c.ByMap = rapid.Bool().Draw(rt, "byMap")
	c.ByTrack = rapid.Bool().Draw(rt, "byTrack")
	c.Paged = rapid.Bool().Draw(rt, "paged")
	ops := []int{vfC05OpConnect, vfC05OpConnect, vfC05OpClientSub, vfC05OpClientSub, vfC05OpServerSub, vfC05OpTick, vfC05OpTick,
		vfC05OpMapSub, vfC05OpMapSub, vfC05OpMapSub, vfC05OpSPSub, vfC05OpTrack, vfC05OpTrack}
	if c.Uni {
		ops = []int{vfC05OpConnect, vfC05OpConnect, vfC05OpServerSub, vfC05OpTick}
	}
	c.Op = vfC05Pick(rt, "op", ops)
	var gates []int
	switch c.Op {
	case vfC05OpConnect:
		gates = []int{vfC05GConnecting, vfC05GBrokerSub, vfC05GPresence, vfC05GHistory, vfC05GWrite}
	case vfC05OpClientSub:
		gates = []int{vfC05GCallback, vfC05GBrokerSub, vfC05GPresence, vfC05GHistory, vfC05GWrite}
	case vfC05OpServerSub:
		gates = []int{vfC05GBrokerSub, vfC05GPresence, vfC05GHistory, vfC05GWrite}
	case vfC05OpTick:
		gates = []int{vfC05GPresence}
	case vfC05OpMapSub:
		gates = []int{vfC05GCallback, vfC05GMapState, vfC05GBrokerSub, vfC05GMapStream, vfC05GWrite, vfC05GPresence}
		if c.Paged {
			gates = append(gates, vfC05GMapIdle, vfC05GMapIdle, vfC05GMapIdle)
		}
	case vfC05OpSPSub:
		gates = []int{vfC05GCallback, vfC05GWrite, vfC05GPresence}
	case vfC05OpTrack:
		gates = []int{vfC05GTrack, vfC05GTrack, vfC05GWrite}
	}
	if c.JoinLeave && c.Op != vfC05OpTick && c.Op != vfC05OpTrack {
		gates = append(gates, vfC05GPublishJoin)
	}
	if c.MapPres && c.Op != vfC05OpTick && c.Op != vfC05OpTrack {
		gates = append(gates, vfC05GMapPresence)
	}
	c.Gate = vfC05Pick(rt, "gate", gates)
	if c.Gate == vfC05GHistory {
		c.Positioned = true
	}
	if c.Op == vfC05OpMapSub && c.Gate == vfC05GBrokerSub {
		c.ByMap = false // the subject's map subscribe must be the node's first to reach the map broker
	}
	if c.Gate == vfC05GWrite && (c.Op == vfC05OpTrack || c.Op == vfC05OpMapSub || c.Op == vfC05OpSPSub) && rapid.IntRange(0, 3).Draw(rt, "forceRWQ") > 0 {
		c.RWQ = true // with the queue the reply write is parked on the writer goroutine, not inside the operation
	}
	switch c.Gate {
	case vfC05GBrokerSub, vfC05GPresence, vfC05GHistory, vfC05GMapState, vfC05GMapStream:
		c.FailAfter = rapid.IntRange(0, 3).Draw(rt, "failAfter") == 0
		if c.Op == vfC05OpMapSub && c.Gate != vfC05GPresence {
			c.FailAfter = rapid.Bool().Draw(rt, "failAfterMap")
		}
	}
	c.Pre = rapid.IntRange(0, 7).Draw(rt, "pre")
	c.GateCh = rapid.IntRange(0, 2).Draw(rt, "gateCh")
	if c.Gate == vfC05GBrokerSub {
		c.GateCh = 2 // only the subject subscribes to "solo", so its subscribe is the node's first and reaches the broker
	}
	c.PreMode = rapid.IntRange(0, 1).Draw(rt, "preMode")
	if c.Uni {
		c.PreMode = 0
	}
	switch c.Op {
	case vfC05OpConnect:
		c.PreMode = 0
		if c.Gate != vfC05GConnecting && c.Gate != vfC05GWrite {
			c.Pre |= 1 << c.GateCh
		}
	case vfC05OpClientSub, vfC05OpServerSub:
		c.Pre &^= 1 << c.GateCh
	case vfC05OpTick:
		if c.Pre == 0 {
			c.Pre = 1
		}
	}
	var causes []int
	switch {
	case c.Op == vfC05OpTick:
		causes = []int{vfC05CTransportClose, vfC05CClientDisconnect, vfC05CNodeDisconnect, vfC05CSlow, vfC05CWriteErr}
	case c.Gate == vfC05GWrite && c.Op == vfC05OpConnect:
		causes = []int{vfC05CTransportClose, vfC05CNodeDisconnect}
	case c.Gate == vfC05GWrite && (c.Op == vfC05OpTrack || c.Op == vfC05OpMapSub || c.Op == vfC05OpSPSub):
		// causes with a disconnect push first flush the queue and therefore wait for the parked write; the two that
		// do not flush (connection closed, slow) tear the subscription down while the operation is still parked
		causes = []int{vfC05CTransportClose, vfC05CTransportClose, vfC05CSlow, vfC05CSlow, vfC05CClientDisconnect, vfC05CNodeDisconnect}
	case c.Gate == vfC05GWrite:
		causes = []int{vfC05CTransportClose, vfC05CClientDisconnect, vfC05CNodeDisconnect, vfC05CSlow}
	case c.Gate == vfC05GConnecting:
		causes = []int{vfC05CTransportClose, vfC05CStale, vfC05CWriteErr}
	case c.Op == vfC05OpConnect:
		causes = []int{vfC05CTransportClose, vfC05CNodeDisconnect, vfC05CWriteErr}
	default:
		causes = []int{vfC05CTransportClose, vfC05CClientDisconnect, vfC05CNodeDisconnect, vfC05CSlow, vfC05CWriteErr, vfC05CExpire}
	}
	c.Cause = vfC05Pick(rt, "cause", causes)
	c.Hold = rapid.SampledFrom([]int{0, 0, 1, 6}).Draw(rt, "hold")
	if c.Op == vfC05OpConnect && c.Gate != vfC05GConnecting && len(c.pre()) >= 2 && c.Hold > 4 {
		// close() waits up to 5 s per reserved connect-time channel, one after the other; after the first timeout it
		// spawns a close() that blocks on connectMu (a mutex: not durable for synctest), so the virtual clock could
		// not advance through the second wait. Keep the hold below the first timeout for multi-channel connects.
		c.Hold = 4
	}
	return c
}

type vfC05Out struct {
	labels     []string
	nontrivial bool
	known      []string
	knownEx    string
}

// vfC05Presence gates AddPresence per (connection, channel): gate name "presence:<conn name>:<channel>".
type vfC05Presence struct {
	inner PresenceManager
	w     *vfWorld
	pass  func(name string) error
}

func (p *vfC05Presence) Presence(ch string) (map[string]*ClientInfo, error) { return p.inner.Presence(ch) }
func (p *vfC05Presence) PresenceStats(ch string) (PresenceStats, error)      { return p.inner.PresenceStats(ch) }
func (p *vfC05Presence) AddPresence(ch string, clientID string, info *ClientInfo) error {
	if c := p.w.connByID(clientID); c != nil {
		if err := p.pass("presence:" + c.Name + ":" + ch); err != nil {
			return err
		}
	}
	return p.inner.AddPresence(ch, clientID, info)
}
func (p *vfC05Presence) RemovePresence(ch string, clientID string, userID string) error {
	return p.inner.RemovePresence(ch, clientID, userID)
}

// vfC05MapBroker wraps the map broker: every call first passes the gate "map_<op>:<channel>[:<key>]"; the node's
// subscription state per channel is recorded.
type vfC05MapBroker struct {
	MapBroker
	w    *vfWorld
	pass func(name string) error
	mu   sync.Mutex
	sub  map[string]bool
}

func (b *vfC05MapBroker) Close(ctx context.Context) error {
	if c, ok := b.MapBroker.(Closer); ok {
		return c.Close(ctx)
	}
	return nil
}

func (b *vfC05MapBroker) Subscribe(chs ...string) error {
	for _, ch := range chs {
		if err := b.pass("map_subscribe:" + ch); err != nil {
			return err
		}
	}
	err := b.MapBroker.Subscribe(chs...)
	if err == nil {
		b.mu.Lock()
		for _, ch := range chs {
			b.sub[ch] = true
		}
		b.mu.Unlock()
	}
	return err
}

func (b *vfC05MapBroker) Unsubscribe(chs ...string) error {
	err := b.MapBroker.Unsubscribe(chs...)
	if err == nil {
		b.mu.Lock()
		for _, ch := range chs {
			delete(b.sub, ch)
		}
		b.mu.Unlock()
	}
	return err
}

func (b *vfC05MapBroker) Publish(ctx context.Context, ch string, key string, opts MapPublishOptions) (MapUpdateResult, error) {
	_ = b.pass("map_publish:" + ch + ":" + key)
	return b.MapBroker.Publish(ctx, ch, key, opts)
}

func (b *vfC05MapBroker) ReadState(ctx context.Context, ch string, opts MapReadStateOptions) (MapStateResult, error) {
	if err := b.pass("map_readstate:" + ch); err != nil {
		return MapStateResult{}, err
	}
	return b.MapBroker.ReadState(ctx, ch, opts)
}

func (b *vfC05MapBroker) ReadStream(ctx context.Context, ch string, opts MapReadStreamOptions) (MapStreamResult, error) {
	name := "map_readstream:" + ch
	if opts.Filter.Limit == 0 && opts.Filter.Since == nil {
		name = "map_streampos:" + ch // position-only read of the state phase (before the hub registration)
	}
	if err := b.pass(name); err != nil {
		return MapStreamResult{}, err
	}
	return b.MapBroker.ReadStream(ctx, ch, opts)
}

func (b *vfC05MapBroker) subscribed() []string {
	b.mu.Lock()
	defer b.mu.Unlock()
	var out []string
	for ch := range b.sub {
		out = append(out, ch)
	}
	sort.Strings(out)
	return out
}

func vfC05GaugeSum(g *prometheus.GaugeVec) float64 {
	ch := make(chan prometheus.Metric, 256)
	g.Collect(ch)
	close(ch)
	sum := 0.0
	for m := range ch {
		var d dto.Metric
		if err := m.Write(&d); err == nil && d.Gauge != nil {
			sum += d.Gauge.GetValue()
		}
	}
	return sum
}

// vfC05Snapshot renders every registry of the node that could keep a trace of a connection, one sorted line each.
func vfC05Snapshot(w *vfWorld, chans []string, mb *vfC05MapBroker, innerMap MapBroker, mapPresChans []string) []string {
	name := func(id string) string {
		if c := w.connByID(id); c != nil {
			return c.Name
		}
		return id
	}
	var lines []string
	h := w.node.hub
	for _, sh := range h.connShards {
		sh.mu.RLock()
		for id, cl := range sh.clients {
			lines = append(lines, fmt.Sprintf("hub.client %s user=%s", name(id), cl.UserID()))
		}
		for u, set := range sh.users {
			var ids []string
			for id := range set {
				ids = append(ids, name(id))
			}
			sort.Strings(ids)
			lines = append(lines, fmt.Sprintf("hub.user %q -> %v", u, ids))
		}
		sh.mu.RUnlock()
	}
	h.sessionsMu.RLock()
	for _, cl := range h.sessions {
		lines = append(lines, "hub.session of "+name(cl.ID()))
	}
	h.sessionsMu.RUnlock()
	numSubs, counted := 0, 0
	for _, sh := range h.subShards {
		sh.mu.RLock()
		numSubs += sh.numSubs
		for ch, m := range sh.subs {
			if len(m) == 0 {
				lines = append(lines, "hub.sub "+ch+" <empty map kept>")
			}
			for id, si := range m {
				counted++
				lines = append(lines, fmt.Sprintf("hub.sub %s %s map=%v", ch, name(id), si.isMap))
			}
		}
		for ch := range sh.mapChannels {
			lines = append(lines, "hub.mapChannel "+ch)
		}
		sh.mu.RUnlock()
	}
	lines = append(lines, fmt.Sprintf("hub.numSubs counter=%d entries=%d", numSubs, counted))
	for _, ch := range chans {
		pr, err := w.node.Presence(ch)
		if err != nil {
			lines = append(lines, fmt.Sprintf("presence %s error %v", ch, err))
		}
		for id, ci := range pr.Presence {
			lines = append(lines, fmt.Sprintf("presence %s %s user=%s conn=%s chan=%s", ch, name(id), ci.UserID, ci.ConnInfo, ci.ChanInfo))
		}
		st, _ := w.node.PresenceStats(ch)
		lines = append(lines, fmt.Sprintf("presence.stats %s clients=%d users=%d", ch, st.NumClients, st.NumUsers))
		lines = append(lines, fmt.Sprintf("broker.subscribed %s=%v", ch, w.broker.BrokerSubscribed(ch)))
	}
	lines = append(lines, fmt.Sprintf("mapbroker.subscribed %v", mb.subscribed()))
	for _, pch := range mapPresChans {
		res, err := innerMap.ReadState(context.Background(), pch, MapReadStateOptions{Limit: -1})
		if err != nil {
			lines = append(lines, fmt.Sprintf("map.clients %s error %v", pch, err))
			continue
		}
		for _, p := range res.Publications {
			lines = append(lines, fmt.Sprintf("map.clients %s key=%s", pch, name(p.Key)))
		}
	}
	// keyed tracking: keyed hub (key -> subscribers) and the shared-poll item index
	km := w.node.keyedManager
	km.mu.RLock()
	for ch, st := range km.channels {
		st.hub.mu.RLock()
		for key, subs := range st.hub.items {
			if len(subs) == 0 {
				lines = append(lines, fmt.Sprintf("keyed.hub %s %s <empty set kept>", ch, key))
			}
			for id := range subs {
				lines = append(lines, fmt.Sprintf("keyed.hub %s %s %s", ch, key, name(id)))
			}
		}
		st.hub.mu.RUnlock()
	}
	km.mu.RUnlock()
	if sp := w.node.sharedPollManager; sp != nil {
		sp.mu.RLock()
		for ch, st := range sp.channels {
			st.mu.Lock()
			for key, e := range st.itemIndex {
				lines = append(lines, fmt.Sprintf("sharedpoll.item %s %s pendingHubJoin=%d", ch, key, e.pendingHubJoin))
			}
			st.mu.Unlock()
		}
		sp.mu.RUnlock()
	}
	lines = append(lines, fmt.Sprintf("gauge.connectionsInflight=%v", vfC05GaugeSum(w.node.metrics.connectionsInflight)))
	lines = append(lines, fmt.Sprintf("gauge.subscriptionsInflight=%v", vfC05GaugeSum(w.node.metrics.subscriptionsInflight)))
	sort.Strings(lines)
	return lines
}

func vfC05DiffLines(before, after []string) (leaked, lost []string) {
	b := map[string]int{}
	for _, l := range before {
		b[l]++
	}
	for _, l := range after {
		if b[l] > 0 {
			b[l]--
		} else {
			leaked = append(leaked, l)
		}
	}
	for _, l := range before {
		if b[l] > 0 {
			b[l]--
			lost = append(lost, l)
		}
	}
	return leaked, lost
}

func vfC05Spin() {
	for i := 0; i < 400; i++ {
		runtime.Gosched()
	}
}

func vfC05Run(t *testing.T, cs vfC05Case, out *vfC05Out, isKnown func(string) bool) string {
	return vfBubble(t, func() string {
		randSource = saferand.New(7) // first presence tick offset: deterministic per case
		cfg := Config{
			ClientPresenceUpdateInterval:    10 * time.Second,
			ClientStaleCloseDelay:           5 * time.Second,
			ClientQueueMaxSize:              4096,
			clientPresenceUpdateConcurrency: cs.Conc,
		}
		// A leaked map client-presence key would expire after KeyTTL: keep it far beyond the settle time of a case.
		cfg.Map.GetMapChannelOptions = func(ch string) MapChannelOptions {
			return MapChannelOptions{Mode: MapModeRecoverable, KeyTTL: 120 * time.Second, MinPageSize: 1, DefaultPageSize: 1}
		}
		cfg.SharedPoll.GetSharedPollChannelOptions = func(ch string) (SharedPollChannelOptions, bool) {
			if ch == "sp1" {
				return SharedPollChannelOptions{RefreshInterval: 10 * time.Second}, true
			}
			return SharedPollChannelOptions{}, false
		}
		var innerMap *MemoryMapBroker
		var mb *vfC05MapBroker
		var failMu sync.Mutex
		failName := "" // the gate whose call fails after its release (FailAfter)
		var wp *vfWorld
		pass := func(name string) error {
			wp.Gates.Pass(name)
			failMu.Lock()
			defer failMu.Unlock()
			if name == failName {
				failName = ""
				return errors.New("vf: backend call failed (connection context canceled)")
			}
			return nil
		}
		w, err := vfNewWorld(cfg, func(w *vfWorld) {
			wp = w
			m, err := NewMemoryMapBroker(w.node, MemoryMapBrokerConfig{})
			if err != nil {
				panic(err)
			}
			innerMap = m
			mb = &vfC05MapBroker{MapBroker: m, w: w, pass: pass, sub: map[string]bool{}}
			w.node.SetMapBroker(mb)
			w.node.OnSharedPoll(func(ctx context.Context, e SharedPollEvent) (SharedPollResult, error) {
				res := SharedPollResult{}
				for _, it := range e.Items {
					res.Items = append(res.Items, SharedPollRefreshItem{Key: it.Key, Data: []byte(`{"k":"` + it.Key + `"}`)})
				}
				return res, nil
			})
		})
		if err != nil {
			return "infra: " + err.Error()
		}
		defer w.Close()
		w.node.SetPresenceManager(&vfC05Presence{inner: w.node.presenceManager, w: w, pass: pass})
		time.Sleep(500 * time.Millisecond)

		subOpts := func(ch string) SubscribeOptions {
			o := SubscribeOptions{EmitPresence: true, EmitJoinLeave: cs.JoinLeave, EnablePositioning: cs.Positioned,
				ChannelInfo: []byte(`{"c":"` + ch + `"}`)}
			if cs.MapPres {
				o.MapClientPresenceChannel = ch + ":clients"
				o.MapUserPresenceChannel = ch + ":users"
			}
			return o
		}
		subjectUser, bystanderUser := "us", "ub"
		if cs.SameUser {
			bystanderUser = "us"
		}
		gateCh := cs.gateChannel()
		var connectSubs []string // connect-time subscriptions of the subject
		expireAt := int64(0)
		w.Connecting = func(c *vfConn, e ConnectEvent) (ConnectReply, error) {
			w.Gates.Pass("connecting:" + c.Name)
			r := ConnectReply{Credentials: &Credentials{UserID: c.User, Info: []byte(`{"n":"` + c.Name + `"}`)}, ReplyWithoutQueue: cs.RWQ}
			if c.Name == "s" {
				r.Credentials.ExpireAt = expireAt
				if len(connectSubs) > 0 {
					r.Subscriptions = map[string]SubscribeOptions{}
					for _, ch := range connectSubs {
						r.Subscriptions[ch] = subOpts(ch)
					}
				}
			}
			return r, nil
		}
		w.OnSubscribe = func(c *vfConn, e SubscribeEvent, cb SubscribeCallback) {
			o := subOpts(e.Channel)
			o.Type = e.Type
			if e.Type != SubscriptionTypeStream {
				o.EnablePositioning = false // derived from the channel mode (map) / not applicable (shared poll)
			}
			rep := SubscribeReply{Options: o}
			if c.Name == "s" && cs.Gate == vfC05GCallback && e.Channel == gateCh {
				go func() {
					w.Gates.Pass("cb:" + e.Channel)
					cb(rep, nil)
				}()
				return
			}
			cb(rep, nil)
		}
		w.PerClient = func(c *vfConn, client *Client) {
			client.OnTrack(func(e TrackEvent, cb TrackCallback) {
				if c.Name == "s" && cs.Gate == vfC05GTrack {
					go func() {
						w.Gates.Pass("track:" + e.Channel)
						cb(TrackReply{}, nil)
					}()
					return
				}
				cb(TrackReply{}, nil)
			})
		}
		w.broker.Hook = func(op, phase, ch string) error {
			if phase == "before" {
				return pass(op + ":" + ch)
			}
			return nil
		}
		mapSubscribe := func(c *vfConn, ch string, cursor string, off uint64, epoch string) uint32 {
			id := c.NextID()
			c.Cmd(&protocol.Command{Id: id, Subscribe: &protocol.SubscribeRequest{Channel: ch, Type: int32(SubscriptionTypeMap),
				Phase: MapPhaseState, Limit: 1, Cursor: cursor, Offset: off, Epoch: epoch}})
			return id
		}
		replyOf := func(c *vfConn, id uint32) *protocol.Reply {
			for _, f := range c.Frames() {
				if f.Reply != nil && f.Reply.Id == id {
					return f.Reply
				}
			}
			return nil
		}
		trackCmd := func(c *vfConn, keys ...string) *protocol.Command {
			var items []*protocol.KeyedItem
			for _, k := range keys {
				items = append(items, &protocol.KeyedItem{Key: k})
			}
			return &protocol.Command{Id: c.NextID(), SubRefresh: &protocol.SubRefreshRequest{Channel: "sp1", Type: typeTrack,
				Track: []*protocol.TrackBatch{{Signature: "sig", Items: items}}}}
		}
		if cs.Paged {
			for _, k := range []string{"a", "b"} {
				if _, err := w.node.MapPublish(context.Background(), "m1", k, MapPublishOptions{Data: []byte(`{}`)}); err != nil {
					return "infra: map publish: " + err.Error()
				}
			}
		}

		// ---- bystander ----------------------------------------------------------------------------------------
		by := w.NewConn(vfConnCfg{Name: "b", User: bystanderUser, Proto: cs.Proto})
		by.Connect(nil)
		for _, ch := range []string{"pa", "pb"} {
			by.Cmd(&protocol.Command{Id: by.NextID(), Subscribe: &protocol.SubscribeRequest{Channel: ch}})
		}
		want := 2
		if cs.ByMap {
			id := mapSubscribe(by, "m1", "", 0, "")
			vfSettle()
			for i := 0; i < 4; i++ {
				r := replyOf(by, id)
				if r == nil || r.Subscribe == nil || r.Subscribe.Phase == MapPhaseLive {
					break
				}
				id = mapSubscribe(by, "m1", r.Subscribe.Cursor, r.Subscribe.Offset, r.Subscribe.Epoch)
				vfSettle()
			}
			want++
		}
		if cs.ByTrack {
			by.Cmd(&protocol.Command{Id: by.NextID(), Subscribe: &protocol.SubscribeRequest{Channel: "sp1", Type: int32(SubscriptionTypeSharedPoll)}})
			vfSettle()
			by.Cmd(trackCmd(by, "k1"))
			want++
		}
		vfSettle()
		time.Sleep(100 * time.Millisecond) // cold-key poll of the bystander's tracked key
		vfSettle()
		if got := len(by.Client.Channels()); got != want {
			return fmt.Sprintf("infra: bystander holds %d of %d subscriptions; frames: %s", got, want, vfRenderFrames(by.Frames()))
		}
		allChans := append(append([]string{}, vfC05Chans...), "m1", "sp1")
		var mapPresChans []string
		for _, ch := range allChans {
			mapPresChans = append(mapPresChans, ch+":clients")
		}
		snapshot := func() []string { return vfC05Snapshot(w, allChans, mb, innerMap, mapPresChans) }
		before := snapshot()

		// ---- subject ------------------------------------------------------------------------------------------
		conn := w.NewConn(vfConnCfg{Name: "s", User: subjectUser, Proto: cs.Proto, Uni: cs.Uni})
		if cs.Cause == vfC05CExpire {
			expireAt = time.Now().Unix() + 4
		}
		var gateNames []string
		switch cs.Gate {
		case vfC05GConnecting:
			gateNames = []string{"connecting:s"}
		case vfC05GCallback:
			gateNames = []string{"cb:" + gateCh}
		case vfC05GBrokerSub:
			gateNames = []string{"subscribe:" + gateCh}
			if cs.Op == vfC05OpMapSub {
				gateNames = []string{"map_subscribe:" + gateCh}
			}
		case vfC05GPresence:
			gateNames = []string{"presence:s:" + gateCh}
			if cs.Op == vfC05OpTick {
				gateNames = nil
				for _, ch := range cs.pre() {
					gateNames = append(gateNames, "presence:s:"+ch)
				}
			}
		case vfC05GHistory:
			gateNames = []string{"history:" + gateCh}
		case vfC05GWrite:
			gateNames = []string{"write:s"}
		case vfC05GPublishJoin:
			gateNames = []string{"publish_join:" + gateCh}
		case vfC05GMapPresence:
			gateNames = []string{"map_publish:" + gateCh + ":clients:" + conn.Client.ID()}
		case vfC05GMapState:
			gateNames = []string{"map_readstate:" + gateCh}
		case vfC05GMapStream:
			gateNames = []string{"map_readstream:" + gateCh}
		case vfC05GTrack:
			gateNames = []string{"track:" + gateCh}
		}
		arm := func() {
			for _, g := range gateNames {
				w.Gates.Arm(g, 1)
			}
			if cs.FailAfter && len(gateNames) == 1 {
				failMu.Lock()
				failName = gateNames[0]
				failMu.Unlock()
			}
		}
		parkedAt := func() int {
			n := 0
			for _, g := range gateNames {
				n += w.Gates.Waiting(g)
			}
			return n
		}
		release := func() {
			for _, g := range gateNames {
				w.Gates.Disarm(g)
				for w.Gates.Release(g) {
				}
			}
		}
		serverOpts := func(ch string) []SubscribeOption {
			o := subOpts(ch)
			return []SubscribeOption{func(so *SubscribeOptions) { *so = o }}
		}
		isClosed := func() bool {
			conn.Client.mu.RLock()
			defer conn.Client.mu.RUnlock()
			return conn.Client.status == statusClosed
		}

		betweenPages := false
		if cs.Op == vfC05OpConnect {
			connectSubs = cs.pre()
			arm()
			go conn.Connect(nil)
			vfSettle()
		} else {
			pre := cs.pre()
			if cs.PreMode == 0 {
				connectSubs = pre
			}
			conn.Connect(nil)
			vfSettle()
			if cs.PreMode == 1 {
				for _, ch := range pre {
					conn.Cmd(&protocol.Command{Id: conn.NextID(), Subscribe: &protocol.SubscribeRequest{Channel: ch}})
				}
				vfSettle()
			}
			if got := len(conn.Client.Channels()); got != len(pre) {
				return fmt.Sprintf("infra: subject committed %d of %d pre-subscriptions; frames: %s", got, len(pre), vfRenderFrames(conn.Frames()))
			}
			switch cs.Op {
			case vfC05OpClientSub:
				arm()
				go conn.Cmd(&protocol.Command{Id: conn.NextID(), Subscribe: &protocol.SubscribeRequest{Channel: gateCh}})
				vfSettle()
			case vfC05OpServerSub:
				arm()
				go func() { _ = conn.Client.Subscribe(gateCh, serverOpts(gateCh)...) }()
				vfSettle()
			case vfC05OpTick:
				arm()
				time.Sleep(10 * time.Second) // the first tick fires in [interval/2, interval)
				vfSettle()
			case vfC05OpMapSub:
				cursor, off, epoch := "", uint64(0), ""
				if cs.Paged && cs.Gate != vfC05GCallback {
					// first page: an ordinary command that leaves the subscription "loading" (mapSubscribing)
					id := mapSubscribe(conn, "m1", "", 0, "")
					vfSettle()
					r := replyOf(conn, id)
					if r == nil || r.Subscribe == nil || r.Subscribe.Cursor == "" {
						return "infra: first map page did not return a cursor; frames: " + vfRenderFrames(conn.Frames())
					}
					cursor, off, epoch = r.Subscribe.Cursor, r.Subscribe.Offset, r.Subscribe.Epoch
					betweenPages = true
				}
				if cs.Gate != vfC05GMapIdle {
					betweenPages = false
					arm()
					go mapSubscribe(conn, "m1", cursor, off, epoch)
					vfSettle()
				}
			case vfC05OpSPSub:
				arm()
				go conn.Cmd(&protocol.Command{Id: conn.NextID(), Subscribe: &protocol.SubscribeRequest{Channel: "sp1", Type: int32(SubscriptionTypeSharedPoll)}})
				vfSettle()
			case vfC05OpTrack:
				conn.Cmd(&protocol.Command{Id: conn.NextID(), Subscribe: &protocol.SubscribeRequest{Channel: "sp1", Type: int32(SubscriptionTypeSharedPoll)}})
				vfSettle()
				if !conn.Client.IsSubscribed("sp1") {
					return "infra: subject not subscribed to sp1; frames: " + vfRenderFrames(conn.Frames())
				}
				arm()
				cmd := trackCmd(conn, "k1", "k2")
				go conn.Cmd(cmd)
				vfSettle()
			}
		}
		parked := parkedAt() > 0
		if !parked && !betweenPages {
			out.labels = append(out.labels, "gate_not_reached:"+vfC05GateNames[cs.Gate]+"/"+vfC05OpNames[cs.Op])
		}

		// ---- end the connection while the operation is parked ---------------------------------------------------
		switch cs.Cause {
		case vfC05CTransportClose:
			go conn.TransportClose()
		case vfC05CClientDisconnect:
			conn.Client.Disconnect(DisconnectForceReconnect)
		case vfC05CNodeDisconnect:
			_ = w.node.Disconnect(subjectUser, WithDisconnectClient(conn.Client.ID()))
		case vfC05CStale:
			time.Sleep(5*time.Second + 100*time.Millisecond)
		case vfC05CSlow:
			go func() { _ = conn.Client.Send(make([]byte, 8000)) }()
		case vfC05CWriteErr:
			conn.T.SetWriteErr(errors.New("vf: injected write error"))
			if cs.Op != vfC05OpConnect {
				go func() { _ = conn.Client.Send([]byte(`{}`)) }()
			}
		case vfC05CExpire:
			time.Sleep(4*time.Second + 100*time.Millisecond)
		}
		closedWhileParked := false
		if cs.mutexHeld() && parked {
			vfC05Spin()
			closedWhileParked = isClosed() && parkedAt() > 0
			release()
			vfSettle()
		} else {
			vfSettle()
			closedWhileParked = parked && isClosed() && parkedAt() > 0
			if cs.Hold > 0 {
				time.Sleep(time.Duration(cs.Hold) * time.Second)
				vfSettle()
			}
			release()
			vfSettle()
		}
		closedBetweenPages := betweenPages && isClosed()
		if !isClosed() {
			out.labels = append(out.labels, "closed_only_after_release")
			conn.TransportClose()
			vfSettle()
		}
		// settle: unsubscribe waits (5 s), dissolver (1 s), shared-poll channel shutdown (1 s); memory presence has no
		// TTL and map presence keys live 120 s, so a leaked entry is never masked by expiry
		time.Sleep(7 * time.Second)
		vfSettle()
		time.Sleep(9 * time.Second)
		vfSettle()

		// the parked operation sat inside its own reply write (after the commit) only when replies bypass the queue
		inOpWrite := cs.Gate == vfC05GWrite && cs.RWQ
		if closedWhileParked && (cs.Gate != vfC05GWrite || inOpWrite || cs.Op == vfC05OpConnect) {
			out.nontrivial = true
			out.labels = append(out.labels, "closed_while_parked")
			out.labels = append(out.labels, "gate="+vfC05GateNames[cs.Gate]+"/op="+vfC05OpNames[cs.Op])
			out.labels = append(out.labels, "cause="+vfC05CauseNames[cs.Cause])
		} else if closedWhileParked {
			out.labels = append(out.labels, "closed_while_queued_write_parked")
		}
		if closedBetweenPages {
			out.nontrivial = true
			out.labels = append(out.labels, "closed_between_map_pages")
			out.labels = append(out.labels, "cause="+vfC05CauseNames[cs.Cause])
		}
		if closed, _ := by.T.Closed(); closed {
			return "the bystander connection was closed; frames: " + vfRenderFrames(by.Frames())
		}
		after := snapshot()
		leaked, lost := vfC05DiffLines(before, after)

		// ---- classification of known findings (operations that keep adding state AFTER their commit) ------------
		type allow struct {
			key   string
			match func(l string) bool
		}
		var allows []allow
		statsOK := map[string]bool{}
		mapClientsLine := func(ch string) func(string) bool {
			return func(l string) bool { return l == "map.clients "+ch+":clients key=s" }
		}
		streamOp := cs.Op == vfC05OpConnect || cs.Op == vfC05OpClientSub || cs.Op == vfC05OpServerSub
		if cs.MapPres && streamOp {
			// publishJoinAndPresence: publishJoin -> addMapClientPresence, both after the commit, no closed re-check
			if (closedWhileParked && (cs.Gate == vfC05GMapPresence || cs.Gate == vfC05GPublishJoin)) ||
				(cs.Op == vfC05OpConnect && cs.Cause == vfC05CWriteErr) {
				allows = append(allows, allow{vfC05KeyMapPresence, func(l string) bool {
					return strings.HasPrefix(l, "map.clients ") && strings.HasSuffix(l, " key=s")
				}})
			}
		}
		if (cs.Op == vfC05OpMapSub || cs.Op == vfC05OpSPSub) && closedWhileParked {
			// setupMapPresenceAndJoin: addPresence -> addMapClientPresence -> publishJoin, all after the commit
			if inOpWrite || cs.Gate == vfC05GPresence {
				allows = append(allows, allow{vfC05KeyLatePresence, func(l string) bool { return strings.HasPrefix(l, "presence "+gateCh+" s ") }})
				statsOK[gateCh] = true
			}
			if cs.MapPres && (inOpWrite || cs.Gate == vfC05GPresence || cs.Gate == vfC05GMapPresence) {
				allows = append(allows, allow{vfC05KeyMapPresence, mapClientsLine(gateCh)})
			}
		}
		if cs.Op == vfC05OpTrack && closedWhileParked && inOpWrite {
			// handleTrack: commit (step 2) -> reply write (step 4) -> keyedManager.addSubscribers (step 5), no re-check
			allows = append(allows, allow{vfC05KeyLateTrack, func(l string) bool {
				return (strings.HasPrefix(l, "keyed.hub sp1 ") && strings.HasSuffix(l, " s")) || strings.HasPrefix(l, "sharedpoll.item sp1 ")
			}})
		}
		var realLeaked, realLost []string
		hit := map[string]bool{}
		for _, l := range leaked {
			ok := false
			for _, a := range allows {
				if a.match(l) {
					hit[a.key] = true
					ok = true
					break
				}
			}
			if !ok && strings.HasPrefix(l, "presence.stats ") && statsOK[strings.Fields(l)[1]] && hit[vfC05KeyLatePresence] {
				ok = true
			}
			if !ok {
				realLeaked = append(realLeaked, l)
			}
		}
		for _, l := range lost {
			if strings.HasPrefix(l, "presence.stats ") && statsOK[strings.Fields(l)[1]] && hit[vfC05KeyLatePresence] {
				continue
			}
			if strings.HasPrefix(l, "sharedpoll.item sp1 ") && hit[vfC05KeyLateTrack] {
				continue
			}
			realLost = append(realLost, l)
		}
		var unknownKeys []string
		for k := range hit {
			if isKnown(k) {
				out.known = append(out.known, k)
				out.knownEx = cs.String()
			} else {
				unknownKeys = append(unknownKeys, k)
			}
		}
		sort.Strings(unknownKeys)
		if len(unknownKeys) > 0 {
			return fmt.Sprintf("%v node state differs after the subject connection ended: present only after: %v; present only before: %v", unknownKeys, leaked, lost)
		}
		if len(realLeaked) > 0 || len(realLost) > 0 {
			return fmt.Sprintf("node state differs after the subject connection ended (closedWhileParked=%v): present only after the connection ended: %v; present only before it was created: %v; subject frames: %s",
				closedWhileParked, realLeaked, realLost, vfRenderFrames(conn.Frames()))
		}
		conn.Client.mu.RLock()
		var left []string
		for ch := range conn.Client.channels {
			left = append(left, ch)
		}
		nMap := len(conn.Client.mapSubscribing)
		nTracked := 0
		if conn.Client.keyed != nil {
			for _, m := range conn.Client.keyed.trackedKeys {
				nTracked += len(m)
			}
		}
		conn.Client.mu.RUnlock()
		sort.Strings(left)
		if nMap > 0 && cs.Op == vfC05OpMapSub && cs.Gate == vfC05GCallback && cs.Paged && closedWhileParked {
			// The subscribe callback ran after close(): handleMapStatePhase has no closed check, installs the loading
			// state on the dead Client object and serves a state page. Nothing in the node refers to it (no hub entry,
			// no presence), so this is outside the property statement; counted, not failed.
			out.labels = append(out.labels, "map_state_page_served_after_close_leaves_loading_state_on_dead_client")
			nMap = 0
		}
		if len(left) > 0 || nMap > 0 || nTracked > 0 {
			return fmt.Sprintf("closed client still holds channels=%v mapSubscribing=%d trackedKeys=%d", left, nMap, nTracked)
		}
		return ""
	})
}

func TestVF_C05(t *testing.T) {
	vfCheck(t, "C05", func(rt *rapid.T, c *vfCase) string {
		cs := vfC05Gen(rt)
		c.Describe(cs.String())
		out := &vfC05Out{}
		msg := vfC05Run(t, cs, out, c.IsKnown)
		seen := map[string]bool{}
		for _, l := range out.labels {
			if !seen[l] {
				seen[l] = true
				c.Label(l)
			}
		}
		for _, k := range out.known {
			c.Known(k, out.knownEx)
		}
		if out.nontrivial {
			c.Nontrivial(c.desc)
		}
		return msg
	})
}
