package PKGNAME

// C24 — Map key expiry removes each expired key exactly once.
//
// Real MemoryMapBroker in a synctest bubble (virtual clock) with a recording, gate-able BrokerEventHandler.
//   TestVF_C24_Race: channel A key "a" expires first in a sweep; the broadcast of its removal is held inside the
//     handler (the sweep goroutine is durably blocked on a channel receive while it sits in phase 2, holding
//     pubLock(A)); the remaining events collected in phase 1 (key "b"/"b2" of channel B — another pubLock shard —
//     and "a2" of A) are still pending revalidation. While held, drawn operations hit B's keys (republish, remove,
//     keep-alive = IfNew+RefreshTTLOnSuppress, IfExists publish, clear, time passing); optionally an operation on
//     channel A is started on its own goroutine (it blocks on pubLock(A), a mutex, so the gate is released right
//     after without waiting). Then the gate is released and time advances.
//   TestVF_C24_Seq: plain drawn sequences (publish / keep-alive / remove / clear / advance) over several keys and
//     sweeps without a gate.
// Oracle (both): the reference is driven by operation results and the delivery log in log order:
//   R1 an expiry removal is legal only for a key the reference holds, with its (possibly refreshed) deadline <= the
//      removal time; it must be broadcast with offset top+1 / current epoch on stream-backed channels;
//   R2 a held key whose deadline passed >= 2 s ago (sweep period 1 s; measured from gate release if later) is gone;
//   R3 operation results agree with the reference's presence of the key (a key pending revalidation is still present);
//   R4 after every advance the state read through the API holds exactly the reference's keys; at the end (after a
//      flush past every deadline) the state is empty and the stream holds exactly one entry per unsuppressed
//      operation and per expiry, in broadcast order with contiguous offsets.

import (
	"context"
	"fmt"
	"runtime"
	"sort"
	"strings"
	"sync"
	"sync/atomic"
	"testing"
	"time"

	"pgregory.net/rapid"
)

const (
	vfC24Pub = iota
	vfC24KeepAlive
	vfC24Remove
	vfC24IfExists
	vfC24Clear
	vfC24Advance
)

type vfC24Op struct {
	Kind int
	Ch   int
	Key  int
	D    time.Duration
}

func (op vfC24Op) String() string {
	n := []string{"pub", "keepalive", "rm", "ifexists", "clear", "advance"}[op.Kind]
	switch op.Kind {
	case vfC24Advance:
		return fmt.Sprintf("advance(%s)", op.D)
	case vfC24Clear:
		return fmt.Sprintf("clear(c%d)", op.Ch)
	}
	return fmt.Sprintf("%s(c%d,k%d)", n, op.Ch, op.Key)
}

type vfC24ChCfg struct {
	Ephemeral bool
	KeyTTL    time.Duration
}

var (
	vfC24NodeOnce sync.Once
	vfC24NodeVal  *Node
	vfC24NodeErr  error
	vfC24Opts     atomic.Pointer[map[string]MapChannelOptions]
)

func vfC24Node() (*Node, error) {
	vfC24NodeOnce.Do(func() {
		vfC24NodeVal, vfC24NodeErr = New(Config{Map: MapConfig{GetMapChannelOptions: func(ch string) MapChannelOptions {
			return (*vfC24Opts.Load())[ch]
		}}})
	})
	return vfC24NodeVal, vfC24NodeErr
}

type vfC24Delivery struct {
	Ch  string
	Pub Publication
	SP  StreamPosition
}

type vfC24Rec struct {
	mu      sync.Mutex
	log     []vfC24Delivery
	armed   bool
	gateCh  string
	gateKey string
	gate    chan struct{}
	reached bool
}

func (r *vfC24Rec) HandlePublication(ch string, pub *Publication, sp StreamPosition, _ bool, _ *Publication) error {
	r.mu.Lock()
	r.log = append(r.log, vfC24Delivery{Ch: ch, Pub: *pub, SP: sp})
	block := r.armed && ch == r.gateCh && pub.Removed && pub.Key == r.gateKey
	if block {
		r.armed = false
		r.reached = true
	}
	gate := r.gate
	r.mu.Unlock()
	if block {
		<-gate // durably blocked: the expiry sweep now sits in phase 2 holding pubLock(ch)
	}
	return nil
}
func (r *vfC24Rec) HandleJoin(string, *ClientInfo) error  { return nil }
func (r *vfC24Rec) HandleLeave(string, *ClientInfo) error { return nil }

func (r *vfC24Rec) take(from int) []vfC24Delivery {
	r.mu.Lock()
	defer r.mu.Unlock()
	out := make([]vfC24Delivery, len(r.log)-from)
	copy(out, r.log[from:])
	return out
}

func (r *vfC24Rec) isReached() bool {
	r.mu.Lock()
	defer r.mu.Unlock()
	return r.reached
}

type vfC24SE struct {
	Key     string
	Removed bool
	Data    string
}

type vfC24Chan struct {
	name    string
	cfg     vfC24ChCfg
	present map[string]int64 // key -> deadline (ms)
	data    map[string]string
	epoch   string
	past    []string
	top     uint64
	log     []vfC24SE // expected stream content (stream-backed channels)
	left    map[string]int // times the key left the state (reference)
	removed map[string]int // removal broadcasts seen
}

type vfC24Tally struct {
	expiries      int
	refreshedKept int
	opsWhileHeld  int
	bCollected    bool
	heldRepublish bool
	heldRemove    bool
	heldKeepAlive bool
	bgOp          bool
	sweeps        map[int64]bool
}

type vfC24World struct {
	ctx       context.Context
	broker    *MemoryMapBroker
	rec       *vfC24Rec
	chans     []*vfC24Chan
	byName    map[string]*vfC24Chan
	seen      int
	held      bool  // the sweep is blocked in the gate
	released  bool
	graceFrom int64 // expiry may be late relative to this instant (gate release)
	opSeq     int
	t         *vfC24Tally
}

func vfC24NewWorld(node *Node, cfgs []vfC24ChCfg, names []string, t *vfC24Tally) (*vfC24World, string) {
	w := &vfC24World{ctx: context.Background(), byName: map[string]*vfC24Chan{}, t: t}
	optsMap := map[string]MapChannelOptions{}
	for i, cfg := range cfgs {
		o := MapChannelOptions{Mode: MapModeRecoverable, KeyTTL: cfg.KeyTTL, StreamSize: 1000, StreamTTL: time.Hour, MetaTTL: 2 * time.Hour}
		if cfg.Ephemeral {
			o = MapChannelOptions{Mode: MapModeEphemeral, KeyTTL: cfg.KeyTTL}
		}
		optsMap[names[i]] = o
		c := &vfC24Chan{name: names[i], cfg: cfg, present: map[string]int64{}, data: map[string]string{}, left: map[string]int{}, removed: map[string]int{}}
		w.chans = append(w.chans, c)
		w.byName[c.name] = c
	}
	vfC24Opts.Store(&optsMap)
	b, err := NewMemoryMapBroker(node, MemoryMapBrokerConfig{})
	if err != nil {
		return nil, "INFRA: broker: " + err.Error()
	}
	w.broker = b
	w.rec = &vfC24Rec{gate: make(chan struct{})}
	if err := b.RegisterEventHandler(w.rec); err != nil {
		return nil, "INFRA: register: " + err.Error()
	}
	return w, ""
}

func (w *vfC24World) close() {
	w.release()
	_ = w.broker.Close(w.ctx)
}

func (w *vfC24World) release() {
	if !w.released {
		w.released = true
		w.held = false
		w.graceFrom = time.Now().UnixMilli()
		w.rec.mu.Lock()
		w.rec.armed = false
		w.rec.mu.Unlock()
		close(w.rec.gate) // a closed gate never blocks again
	}
}

func (c *vfC24Chan) observe(ep string) string {
	if ep == "" {
		return "empty epoch"
	}
	if c.epoch == "" {
		for _, p := range c.past {
			if p == ep {
				return "epoch reused after clear"
			}
		}
		c.epoch = ep
		return ""
	}
	if c.epoch != ep {
		return fmt.Sprintf("epoch changed %q -> %q", c.epoch, ep)
	}
	return ""
}

// applyExpiry handles a removal broadcast that no operation asked for.
func (w *vfC24World) applyExpiry(d vfC24Delivery) string {
	c := w.byName[d.Ch]
	if c == nil {
		return "broadcast on unknown channel " + d.Ch
	}
	if !d.Pub.Removed {
		return fmt.Sprintf("spontaneous broadcast of %s/%s data %q", d.Ch, d.Pub.Key, d.Pub.Data)
	}
	c.removed[d.Pub.Key]++
	dl, ok := c.present[d.Pub.Key]
	if !ok {
		return fmt.Sprintf("expiry removal of %s/%s broadcast although the key is not in the state: removals=%d, times it left the state=%d",
			d.Ch, d.Pub.Key, c.removed[d.Pub.Key], c.left[d.Pub.Key])
	}
	if d.Pub.Time < dl {
		return fmt.Sprintf("key %s/%s removed by expiry at %d although its deadline is %d (refreshed key removed)", d.Ch, d.Pub.Key, d.Pub.Time, dl)
	}
	if !c.cfg.Ephemeral {
		if d.SP.Offset != c.top+1 || d.Pub.Offset != c.top+1 || d.SP.Epoch != c.epoch {
			return fmt.Sprintf("expiry removal of %s/%s broadcast at %+v (pub offset %d), want offset %d epoch %s", d.Ch, d.Pub.Key, d.SP, d.Pub.Offset, c.top+1, c.epoch)
		}
		c.top++
		c.log = append(c.log, vfC24SE{Key: d.Pub.Key, Removed: true})
	} else if d.SP.Offset != 0 || d.SP.Epoch != c.epoch {
		return fmt.Sprintf("expiry removal of %s/%s broadcast at %+v on a streamless channel (epoch %s)", d.Ch, d.Pub.Key, d.SP, c.epoch)
	}
	delete(c.present, d.Pub.Key)
	delete(c.data, d.Pub.Key)
	c.left[d.Pub.Key]++
	w.t.expiries++
	w.t.sweeps[d.Pub.Time] = true
	return ""
}

// applyOwn folds the result (and the broadcast, if any) of an operation into the reference and checks R3.
func (w *vfC24World) applyOwn(op vfC24Op, key, data string, res MapUpdateResult, err error, own []vfC24Delivery, now int64, loTop *uint64) string {
	c := w.chans[op.Ch]
	if err != nil {
		return "unexpected error: " + err.Error()
	}
	_, present := c.present[key]
	wantSupp := SuppressReasonNone
	switch op.Kind {
	case vfC24KeepAlive:
		if present {
			wantSupp = SuppressReasonKeyExists
		}
	case vfC24Remove, vfC24IfExists:
		if !present {
			wantSupp = SuppressReasonKeyNotFound
		}
	}
	if res.SuppressReason != wantSupp || res.Suppressed != (wantSupp != "") {
		return fmt.Sprintf("result suppressed=%v reason=%q; the reference (key present=%v) expects reason=%q", res.Suppressed, res.SuppressReason, present, wantSupp)
	}
	if op.Kind == vfC24Remove && !present && res.Position.Epoch == "" && c.epoch == "" {
		// remove on a channel that does not exist yet: zero position
	} else if v := c.observe(res.Position.Epoch); v != "" {
		return v
	}
	if res.Suppressed {
		if len(own) != 0 {
			return "suppressed operation was broadcast"
		}
		if op.Kind == vfC24KeepAlive {
			c.present[key] = now + c.cfg.KeyTTL.Milliseconds()
			w.t.refreshedKept++
		}
		lo := c.top
		if loTop != nil {
			lo = *loTop // concurrent operation: serialized somewhere between the sweep's remaining events
		}
		if (res.Position.Offset < lo || res.Position.Offset > c.top) && !(res.Position.Epoch == "") {
			return fmt.Sprintf("suppressed result offset %d, want %d..%d", res.Position.Offset, lo, c.top)
		}
		return ""
	}
	if len(own) != 1 {
		return fmt.Sprintf("unsuppressed operation was broadcast %d times", len(own))
	}
	d := own[0]
	removal := op.Kind == vfC24Remove
	if d.Ch != c.name || d.Pub.Key != key || d.Pub.Removed != removal || (!removal && string(d.Pub.Data) != data) || d.SP != res.Position {
		return fmt.Sprintf("broadcast {%s %s removed=%v data=%q %+v} does not match the operation (result position %+v)", d.Ch, d.Pub.Key, d.Pub.Removed, d.Pub.Data, d.SP, res.Position)
	}
	if !c.cfg.Ephemeral {
		if res.Position.Offset != c.top+1 || d.Pub.Offset != c.top+1 {
			return fmt.Sprintf("operation appended at offset %d (pub offset %d), want %d", res.Position.Offset, d.Pub.Offset, c.top+1)
		}
		c.top++
		c.log = append(c.log, vfC24SE{Key: key, Removed: removal, Data: data})
	} else if res.Position.Offset != 0 {
		return fmt.Sprintf("offset %d on a streamless channel", res.Position.Offset)
	}
	if removal {
		c.removed[key]++
		c.left[key]++
		delete(c.present, key)
		delete(c.data, key)
	} else {
		c.present[key] = now + c.cfg.KeyTTL.Milliseconds()
		c.data[key] = data
	}
	return ""
}

func (w *vfC24World) call(op vfC24Op, key, data string) (MapUpdateResult, error) {
	c := w.chans[op.Ch]
	switch op.Kind {
	case vfC24Pub:
		return w.broker.Publish(w.ctx, c.name, key, MapPublishOptions{Data: []byte(data)})
	case vfC24KeepAlive:
		return w.broker.Publish(w.ctx, c.name, key, MapPublishOptions{Data: []byte(data), KeyMode: KeyModeIfNew, RefreshTTLOnSuppress: true})
	case vfC24IfExists:
		return w.broker.Publish(w.ctx, c.name, key, MapPublishOptions{Data: []byte(data), KeyMode: KeyModeIfExists})
	default:
		return w.broker.Remove(w.ctx, c.name, key, MapRemoveOptions{})
	}
}

// absorb processes broadcasts that happened while the harness was asleep (all of them are expiry removals).
func (w *vfC24World) absorb() string {
	for _, d := range w.rec.take(w.seen) {
		w.seen++
		if v := w.applyExpiry(d); v != "" {
			return v
		}
	}
	return ""
}

// doOp runs an operation on the harness goroutine (nothing else can run concurrently except a held sweep).
func (w *vfC24World) doOp(op vfC24Op) string {
	if v := w.absorb(); v != "" {
		return v
	}
	c := w.chans[op.Ch]
	now := time.Now().UnixMilli()
	switch op.Kind {
	case vfC24Advance:
		time.Sleep(op.D)
		vfSettle()
		return w.reconcile()
	case vfC24Clear:
		if err := w.broker.Clear(w.ctx, c.name, MapClearOptions{}); err != nil {
			return "clear: " + err.Error()
		}
		for k := range c.present {
			c.left[k]++ // a clear drops the keys silently (no removal is owed for it)
			c.removed[k]++
		}
		c.present = map[string]int64{}
		c.data = map[string]string{}
		if c.epoch != "" {
			c.past = append(c.past, c.epoch)
		}
		c.epoch, c.top, c.log = "", 0, nil
		if d := w.rec.take(w.seen); len(d) != 0 {
			return "clear was broadcast"
		}
		return ""
	}
	w.opSeq++
	key := fmt.Sprintf("k%d", op.Key)
	data := fmt.Sprintf("d%d", w.opSeq)
	res, err := w.call(op, key, data)
	own := w.rec.take(w.seen)
	w.seen += len(own)
	if w.held {
		w.t.opsWhileHeld++
	}
	return w.applyOwn(op, key, data, res, err, own, now, nil)
}

// reconcile: R1 (through absorb), R2 and R4 after time has passed.
func (w *vfC24World) reconcile() string {
	if v := w.absorb(); v != "" {
		return v
	}
	now := time.Now().UnixMilli()
	for _, c := range w.chans {
		res, err := w.broker.ReadState(w.ctx, c.name, MapReadStateOptions{Limit: -1})
		if err != nil {
			return "state read: " + err.Error()
		}
		got := map[string]bool{}
		for _, p := range res.Publications {
			got[p.Key] = true
			if _, ok := c.present[p.Key]; !ok {
				return fmt.Sprintf("key %s/%s is in the state although the reference removed it (removals broadcast %d, times it left %d)", c.name, p.Key, c.removed[p.Key], c.left[p.Key])
			}
			if string(p.Data) != c.data[p.Key] {
				return fmt.Sprintf("key %s/%s holds %q, reference %q", c.name, p.Key, p.Data, c.data[p.Key])
			}
		}
		for k, dl := range c.present {
			if !got[k] {
				return fmt.Sprintf("key %s/%s left the state without a removal broadcast (deadline %d, now %d)", c.name, k, dl, now)
			}
			late := dl
			if w.graceFrom > late {
				late = w.graceFrom
			}
			if !w.held && now >= late+2000 {
				return fmt.Sprintf("key %s/%s still present at %d, deadline %d (never expired)", c.name, k, now, dl)
			}
		}
		if c.epoch != "" {
			if res.Position.Epoch != c.epoch || res.Position.Offset != c.top {
				return fmt.Sprintf("channel %s position %+v, reference {%d %s}", c.name, res.Position, c.top, c.epoch)
			}
		} else {
			c.epoch = res.Position.Epoch
		}
	}
	return ""
}

// finish releases the gate, flushes past every deadline and checks the final state and stream (R4).
func (w *vfC24World) finish() string {
	w.release()
	vfSettle()
	if v := w.reconcile(); v != "" {
		return "after release: " + v
	}
	var maxTTL time.Duration
	for _, c := range w.chans {
		if c.cfg.KeyTTL > maxTTL {
			maxTTL = c.cfg.KeyTTL
		}
	}
	time.Sleep(maxTTL + 2500*time.Millisecond)
	vfSettle()
	if v := w.reconcile(); v != "" {
		return "after flush: " + v
	}
	for _, c := range w.chans {
		if len(c.present) != 0 {
			keys := make([]string, 0)
			for k := range c.present {
				keys = append(keys, k)
			}
			sort.Strings(keys)
			return fmt.Sprintf("after flush: keys %v of %s never expired", keys, c.name)
		}
		for k, n := range c.left {
			if c.removed[k] != n {
				return fmt.Sprintf("key %s/%s: %d removals for %d departures", c.name, k, c.removed[k], n)
			}
		}
		if c.cfg.Ephemeral {
			continue
		}
		res, err := w.broker.ReadStream(w.ctx, c.name, MapReadStreamOptions{Filter: StreamFilter{Limit: -1}})
		if err != nil {
			return "stream read: " + err.Error()
		}
		if len(res.Publications) != len(c.log) {
			return fmt.Sprintf("stream of %s holds %d entries, reference %d (one per unsuppressed operation and expiry)", c.name, len(res.Publications), len(c.log))
		}
		base := c.top - uint64(len(c.log))
		for i, p := range res.Publications {
			e := c.log[i]
			if p.Offset != base+uint64(i)+1 || p.Key != e.Key || p.Removed != e.Removed || (!e.Removed && string(p.Data) != e.Data) {
				return fmt.Sprintf("stream of %s entry %d is {off=%d key=%s removed=%v data=%q}, reference {off=%d key=%s removed=%v data=%q}",
					c.name, i, p.Offset, p.Key, p.Removed, p.Data, base+uint64(i)+1, e.Key, e.Removed, e.Data)
			}
		}
	}
	return ""
}

// ---------------------------------------------------------------------------------------------------------------

var vfC24TTLs = []time.Duration{time.Second, 1500 * time.Millisecond, 2 * time.Second, 700 * time.Millisecond, 3 * time.Second}

func vfC24GenOp(rt *rapid.T, nCh, nKeys int, allowAdvance bool) vfC24Op {
	kinds := []int{vfC24Pub, vfC24Pub, vfC24KeepAlive, vfC24KeepAlive, vfC24Remove, vfC24IfExists, vfC24Pub, vfC24Clear}
	if allowAdvance {
		kinds = append(kinds, vfC24Advance, vfC24Advance, vfC24Advance, vfC24Advance)
	}
	op := vfC24Op{Kind: rapid.SampledFrom(kinds).Draw(rt, "kind")}
	if op.Kind == vfC24Clear && rapid.IntRange(0, 3).Draw(rt, "clearKeep") != 0 {
		op.Kind = vfC24KeepAlive
	}
	op.Ch = rapid.IntRange(0, nCh-1).Draw(rt, "ch")
	op.Key = rapid.IntRange(0, nKeys-1).Draw(rt, "key")
	if op.Kind == vfC24Advance {
		op.D = rapid.SampledFrom([]time.Duration{300 * time.Millisecond, time.Second, 100 * time.Millisecond, 650 * time.Millisecond,
			1200 * time.Millisecond, 2 * time.Second, 999 * time.Millisecond, time.Millisecond, 3500 * time.Millisecond}).Draw(rt, "d")
	}
	return op
}

func vfC24Render(ops []vfC24Op) string {
	parts := make([]string, len(ops))
	for i, op := range ops {
		parts[i] = op.String()
	}
	return "[" + strings.Join(parts, " ") + "]"
}

func TestVF_C24_Seq(t *testing.T) {
	vfCheck(t, "C24", func(rt *rapid.T, c *vfCase) string {
		nCh := rapid.IntRange(1, 2).Draw(rt, "nch")
		nKeys := rapid.IntRange(2, 5).Draw(rt, "nkeys")
		var cfgs []vfC24ChCfg
		for i := 0; i < nCh; i++ {
			cfgs = append(cfgs, vfC24ChCfg{Ephemeral: rapid.IntRange(0, 3).Draw(rt, "eph") == 0, KeyTTL: rapid.SampledFrom(vfC24TTLs).Draw(rt, "ttl")})
		}
		nOps := rapid.IntRange(5, 40).Draw(rt, "nops")
		var ops []vfC24Op
		for i := 0; i < nOps; i++ {
			ops = append(ops, vfC24GenOp(rt, nCh, nKeys, true))
		}
		desc := fmt.Sprintf("seq cfgs=%v ops=%s", cfgs, vfC24Render(ops))
		c.Describe(desc)
		node, err := vfC24Node()
		if err != nil {
			rt.Fatalf("INFRA: %v", err)
		}
		tl := &vfC24Tally{sweeps: map[int64]bool{}}
		verdict := vfBubble(t, func() string {
			w, v := vfC24NewWorld(node, cfgs, []string{"vs0", "vs1"}[:nCh], tl)
			if v != "" {
				return v
			}
			defer w.close()
			for i, op := range ops {
				if v := w.doOp(op); v != "" {
					return fmt.Sprintf("step %d %s: %s", i, op, v)
				}
			}
			return w.finish()
		})
		if strings.HasPrefix(verdict, "INFRA:") {
			rt.Fatalf("%s", verdict)
		}
		c.Label("seq")
		if tl.expiries > 0 {
			c.Label("seq_key_expired")
		}
		if tl.refreshedKept > 0 {
			c.Label("seq_keepalive_refreshed")
		}
		if len(tl.sweeps) >= 2 {
			c.Label("seq_multi_sweep")
		}
		if tl.expiries > 0 && tl.refreshedKept > 0 {
			c.Nontrivial(desc)
		}
		return verdict
	})
}

type vfC24RaceCase struct {
	TTLA, TTLB time.Duration
	EphA, EphB bool
	Start      time.Duration // phase of the first publish relative to the sweep ticks
	Delta      time.Duration // b is published Delta after a
	A2, B2     bool
	Held       []vfC24Op // operations on channel B (index 1) while the sweep is held; advance allowed
	Bg         int       // 0 none, 1 republish a, 2 remove a, 3 keep-alive a (own goroutine, blocks on pubLock(A))
	After      []vfC24Op
}

func TestVF_C24_Race(t *testing.T) {
	if index("vA", numPubLocks) == index("vB", numPubLocks) {
		t.Fatalf("INFRA: channels vA and vB share a pubLock shard")
	}
	vfCheck(t, "C24", func(rt *rapid.T, c *vfCase) string {
		rc := vfC24RaceCase{}
		rc.TTLA = rapid.SampledFrom([]time.Duration{time.Second, 1500 * time.Millisecond, 2 * time.Second}).Draw(rt, "ttlA")
		rc.TTLB = rapid.SampledFrom([]time.Duration{0, 0, 0, 0, 500 * time.Millisecond, -200 * time.Millisecond}).Draw(rt, "ttlBdiff") + rc.TTLA
		rc.EphA = rapid.IntRange(0, 4).Draw(rt, "ephA") == 0
		rc.EphB = rapid.IntRange(0, 4).Draw(rt, "ephB") == 0
		rc.Start = rapid.SampledFrom([]time.Duration{100 * time.Millisecond, 300 * time.Millisecond, 450 * time.Millisecond, 650 * time.Millisecond, 0, 999 * time.Millisecond}).Draw(rt, "start")
		rc.Delta = rapid.SampledFrom([]time.Duration{time.Millisecond, 5 * time.Millisecond, 50 * time.Millisecond, 300 * time.Millisecond}).Draw(rt, "delta")
		rc.A2 = rapid.Bool().Draw(rt, "a2")
		rc.B2 = rapid.Bool().Draw(rt, "b2")
		nHeld := rapid.IntRange(1, 4).Draw(rt, "nheld")
		for i := 0; i < nHeld; i++ {
			op := vfC24GenOp(rt, 1, 2, i > 0)
			op.Ch = 1
			if !rc.B2 && op.Key == 1 && rapid.Bool().Draw(rt, "retarget") {
				op.Key = 0
			}
			rc.Held = append(rc.Held, op)
		}
		rc.Bg = rapid.SampledFrom([]int{0, 0, 1, 2, 3}).Draw(rt, "bg")
		nAfter := rapid.IntRange(0, 5).Draw(rt, "nafter")
		for i := 0; i < nAfter; i++ {
			rc.After = append(rc.After, vfC24GenOp(rt, 2, 2, true))
		}
		desc := fmt.Sprintf("race ttlA=%s ttlB=%s ephA=%v ephB=%v start=%s delta=%s a2=%v b2=%v held=%s bg=%d after=%s",
			rc.TTLA, rc.TTLB, rc.EphA, rc.EphB, rc.Start, rc.Delta, rc.A2, rc.B2, vfC24Render(rc.Held), rc.Bg, vfC24Render(rc.After))
		c.Describe(desc)
		node, err := vfC24Node()
		if err != nil {
			rt.Fatalf("INFRA: %v", err)
		}
		tl := &vfC24Tally{sweeps: map[int64]bool{}}
		verdict := vfBubble(t, func() string {
			cfgs := []vfC24ChCfg{{Ephemeral: rc.EphA, KeyTTL: rc.TTLA}, {Ephemeral: rc.EphB, KeyTTL: rc.TTLB}}
			w, v := vfC24NewWorld(node, cfgs, []string{"vA", "vB"}, tl)
			if v != "" {
				return v
			}
			defer w.close()
			if rc.Start > 0 {
				time.Sleep(rc.Start)
				vfSettle()
			}
			// a first (earliest deadline => first event of the sweep), then the others
			if v := w.doOp(vfC24Op{Kind: vfC24Pub, Ch: 0, Key: 0}); v != "" {
				return "setup a: " + v
			}
			aDeadline := w.chans[0].present["k0"]
			time.Sleep(rc.Delta)
			vfSettle()
			if v := w.doOp(vfC24Op{Kind: vfC24Pub, Ch: 1, Key: 0}); v != "" {
				return "setup b: " + v
			}
			bDeadline := w.chans[1].present["k0"]
			if rc.A2 {
				if v := w.doOp(vfC24Op{Kind: vfC24Pub, Ch: 0, Key: 1}); v != "" {
					return "setup a2: " + v
				}
			}
			if rc.B2 {
				if v := w.doOp(vfC24Op{Kind: vfC24Pub, Ch: 1, Key: 1}); v != "" {
					return "setup b2: " + v
				}
			}
			w.rec.mu.Lock()
			w.rec.armed, w.rec.gateCh, w.rec.gateKey = true, "vA", "k0"
			w.rec.mu.Unlock()
			// run until the sweep is held inside the broadcast of a's removal
			for !w.rec.isReached() {
				if time.Now().UnixMilli() > aDeadline+2000 {
					return fmt.Sprintf("key vA/k0 not expired 2 s after its deadline %d", aDeadline)
				}
				time.Sleep(50 * time.Millisecond)
				vfSettle()
				if !w.rec.isReached() {
					if v := w.reconcile(); v != "" {
						return "before the gate: " + v
					}
				}
			}
			w.held = true
			sweepAt := int64(0)
			for _, d := range w.rec.take(w.seen) {
				if d.Ch == "vA" && d.Pub.Key == "k0" && d.Pub.Removed {
					sweepAt = d.Pub.Time
				}
			}
			if v := w.absorb(); v != "" {
				return "at the gate: " + v
			}
			if _, still := w.chans[1].present["k0"]; still && bDeadline > aDeadline && bDeadline <= sweepAt {
				tl.bCollected = true // b was collected by phase 1 of the held sweep and awaits revalidation
			}
			for i, op := range rc.Held {
				if op.Kind == vfC24Advance {
					// time may pass while the sweep is held: the harness holds no mutex anybody waits for
					time.Sleep(op.D)
					vfSettle()
					if v := w.reconcile(); v != "" {
						return fmt.Sprintf("held step %d %s: %s", i, op, v)
					}
					continue
				}
				_, wasPresent := w.chans[1].present[fmt.Sprintf("k%d", op.Key)]
				if v := w.doOp(op); v != "" {
					return fmt.Sprintf("held step %d %s: %s", i, op, v)
				}
				if op.Key == 0 && wasPresent {
					switch op.Kind {
					case vfC24Pub, vfC24IfExists:
						tl.heldRepublish = true
					case vfC24Remove:
						tl.heldRemove = true
					case vfC24KeepAlive:
						tl.heldKeepAlive = true
					}
				}
			}
			if rc.Bg != 0 {
				// an operation on channel A blocks on pubLock(A) (a mutex: not durably blocked), so the gate is
				// released right away without waiting for quiescence in between
				tl.bgOp = true
				kind := []int{0, vfC24Pub, vfC24Remove, vfC24KeepAlive}[rc.Bg]
				op := vfC24Op{Kind: kind, Ch: 0, Key: 0}
				if v := w.absorb(); v != "" {
					return "before bg op: " + v
				}
				type bgRes struct {
					res MapUpdateResult
					err error
				}
				done := make(chan bgRes, 1)
				go func() {
					res, err := w.call(op, "k0", "bg")
					done <- bgRes{res, err}
				}()
				for i := 0; i < 20; i++ {
					runtime.Gosched()
				}
				now := time.Now().UnixMilli()
				w.release()
				r := <-done
				vfSettle()
				// fold the log in order: the bg operation's own broadcast is the one carrying its data / a removal of k0
				var own []vfC24Delivery
				topBefore := w.chans[0].top
				for _, d := range w.rec.take(w.seen) {
					w.seen++
					if d.Ch == "vA" && d.Pub.Key == "k0" && ((kind == vfC24Remove && d.Pub.Removed) || string(d.Pub.Data) == "bg") {
						own = append(own, d)
						if v := w.applyOwn(op, "k0", "bg", r.res, r.err, own, now, nil); v != "" {
							return "bg " + op.String() + ": " + v
						}
						continue
					}
					if v := w.applyExpiry(d); v != "" {
						return "after release: " + v
					}
				}
				if len(own) == 0 {
					if v := w.applyOwn(op, "k0", "bg", r.res, r.err, nil, now, &topBefore); v != "" {
						return "bg " + op.String() + ": " + v
					}
				}
			} else {
				w.release()
				vfSettle()
			}
			if v := w.reconcile(); v != "" {
				return "after release: " + v
			}
			for i, op := range rc.After {
				if v := w.doOp(op); v != "" {
					return fmt.Sprintf("after step %d %s: %s", i, op, v)
				}
			}
			return w.finish()
		})
		if strings.HasPrefix(verdict, "INFRA:") {
			rt.Fatalf("%s", verdict)
		}
		c.Label("race")
		if tl.bCollected {
			c.Label("race_b_pending_revalidation")
		}
		if tl.heldRepublish {
			c.Label("race_b_republished_while_held")
		}
		if tl.heldRemove {
			c.Label("race_b_removed_while_held")
		}
		if tl.heldKeepAlive {
			c.Label("race_b_keptalive_while_held")
		}
		if tl.bgOp {
			c.Label("race_op_blocked_on_publock")
		}
		if tl.opsWhileHeld > 0 && tl.bCollected {
			c.Nontrivial(desc)
		}
		return verdict
	})
}
