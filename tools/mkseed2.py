#!/usr/bin/env python3
"""tools/mkseed2.py Cxx [...] — second-round seeders: like mkseed.py but the prompt names the first seed's site so
that a different kind of change is produced. Worktree /tmp/seed2-Cxx."""
import json, subprocess, sys
t = open('/verif/tools/seeder_prompt.txt').read()
props = {json.loads(l)['id']: json.loads(l) for l in open('/verif/properties.jsonl')}
for pid in sys.argv[1:]:
    p = props[pid]
    wt = '/tmp/seed2-' + pid
    subprocess.run(['git', '-C', '/repo', 'worktree', 'add', '-q', '--detach', wt, 'HEAD'], check=True)
    txt = "Property %s — %s\n\nStatement: %s\n\nQuantifier (%s): %s\n\nWhy the existing tests cannot settle it: %s\n\nAnchors: files %s; mechanisms %s\n" % (
        p['id'], p['title'], p['statement'], ', '.join(p['quantifier']['over']), p['quantifier']['text'], p['why_tests_cant'],
        p['anchors']['files'], [m['name'] for m in p['anchors']['mechanism']])
    try:
        m1 = json.load(open('/verif/seeded/S-%s-1/meta.json' % pid))
        txt += "\nNOTE: an earlier seeded defect for this property already did this: \"%s\" (files %s). Produce a DIFFERENT kind of change: another code site and another mechanism.\n" % (m1['summary'][:400], m1.get('files'))
    except Exception:
        pass
    open('/tmp/seed2-%s.property.txt' % pid, 'w').write(txt)
    open('/tmp/seed2-%s.prompt.txt' % pid, 'w').write(t.replace('{WT}', wt).replace('{PROPFILE}', '/tmp/seed2-%s.property.txt' % pid).replace('{PROPTEXT}', txt))
    print(pid, 'ready')
